#!/usr/bin/env python3
"""Sensitivity self-test: apply each deliberate property-breaking edit to /repo, run the quick
check of the property it breaks with a reduced budget, expect a VIOLATION, and revert.
Usage: mutants.py [name-substring ...]      (run from anywhere; needs a clean /repo)"""
import subprocess, sys, os, json, time

REG = "signal-hook-registry/src/lib.rs"
HL = "signal-hook-registry/src/half_lock.rs"
CH = "src/low_level/channel.rs"
BE = "src/iterator/backend.rs"
IT = "src/iterator/mod.rs"
EX = "src/iterator/exfiltrator/mod.rs"
RAW = "src/iterator/exfiltrator/raw.rs"
PIPE = "src/low_level/pipe.rs"
FLAG = "src/flag.rs"
LL = "src/low_level/mod.rs"
TK = "signal-hook-tokio/src/lib.rs"
AS = "signal-hook-async-std/src/lib.rs"

# (name, property expected to fire, [(file, old, new)...], runs)
MUTANTS = [
 ("c01-no-barrier", "C01", [(HL, "        self.lock.write_barrier();\n", "")], 30000),
 ("c01-barrier-any-slot", "C01", [(HL, "while !seen_zero.iter().all(|s| *s)", "while !seen_zero.iter().any(|s| *s)")], 30000),
 ("c01-load-before-count", "C01", [(HL, "        let gen = self.generation.load(Ordering::SeqCst);\n        let lock = &self.lock[gen % 2];", "        let early = self.data.load(Ordering::SeqCst);\n        let gen = self.generation.load(Ordering::SeqCst);\n        let lock = &self.lock[gen % 2];"),
                                      (HL, "        let data = self.data.load(Ordering::SeqCst);\n        #[cfg(sighook_verif)]\n        ::sighook_shim::hook::read_open", "        let data = early;\n        #[cfg(sighook_verif)]\n        ::sighook_shim::hook::read_open")], 30000),
 ("c01-drop-before-barrier", "C01", [(HL, "        self.lock.write_barrier();\n\n        #[cfg(sighook_verif)]\n        ::sighook_shim::hook::snap_free(old as usize);\n        drop(unsafe { Box::from_raw(old) });\n", "        #[cfg(sighook_verif)]\n        ::sighook_shim::hook::snap_free(old as usize);\n        drop(unsafe { Box::from_raw(old) });\n        self.lock.write_barrier();\n")], 30000),
 ("c01-fetch-sub-relaxed", "C01", [(HL, "self.lock.fetch_sub(1, Ordering::SeqCst);", "self.lock.fetch_sub(1, Ordering::Relaxed);")], 60000),
 ("c01-dekker-writer-acquire", "C01", [(HL, "*seen = *seen || slot.load(Ordering::SeqCst) == 0;", "*seen = *seen || slot.load(Ordering::Acquire) == 0;")], 120000),
 ("c01-dekker-reader-acqrel", "C01", [(HL, "let guard_cnt = lock.fetch_add(1, Ordering::SeqCst);", "let guard_cnt = lock.fetch_add(1, Ordering::Acquire);"),
                                      (HL, "        let data = self.data.load(Ordering::SeqCst);\n        #[cfg(sighook_verif)]\n        ::sighook_shim::hook::read_open", "        let data = self.data.load(Ordering::Acquire);\n        #[cfg(sighook_verif)]\n        ::sighook_shim::hook::read_open")], 120000),
 ("c02-reverse-order", "C02", [(REG, "        for action in slot.actions.values() {\n            action(info);", "        for action in slot.actions.values().rev() {\n            action(info);")], 30000),
 ("c02-unregister-removes-neighbour", "C02", [(REG, "        replace = slot.actions.remove(&id.action).is_some();", "        replace = slot.actions.remove(&id.action).is_some();\n        if replace && slot.actions.len() > 2 { let k = *slot.actions.keys().next().unwrap(); slot.actions.remove(&k); }")], 60000),
 ("c03-vec-in-handler", "C03", [(REG, "        for action in slot.actions.values() {\n            action(info);", "        let v: Vec<_> = slot.actions.values().collect();\n        for action in v {\n            action(info);")], 6000),
 ("c03-lock-in-handler", "C03", [(REG, "    let fallback = globals.race_fallback.read();\n    let sigdata = globals.data.read();\n\n    if let Some(slot) = sigdata.signals.get(&sig) {\n        unsafe { slot.prev.execute(sig, info, data) };", "    let fallback = globals.race_fallback.read();\n    let _w = globals.race_fallback.write();\n    let sigdata = globals.data.read();\n\n    if let Some(slot) = sigdata.signals.get(&sig) {\n        unsafe { slot.prev.execute(sig, info, data) };")], 6000),
 ("c04-fallback-after-sigaction", "C04", [(REG, "            globals\n                .race_fallback\n                .write()\n                .store(Some(Prev::detect(signal)?));\n\n            let mut slot = Slot::new(signal)?;", "            let mut slot = Slot::new(signal)?;\n            globals\n                .race_fallback\n                .write()\n                .store(Some(slot.prev.clone()));\n")], 60000),
 ("c04-ignore-siginfo-flag", "C04", [(REG, "            if self.info.sa_flags & siginfo == 0 {", "            if self.info.sa_flags & siginfo == 0 || true {")], 30000),
 ("c04-prev-after-actions", "C04", [(REG, "        unsafe { slot.prev.execute(sig, info, data) };\n\n        let info = unsafe { info.as_ref() };", "        let info0 = info;\n        let info = unsafe { info.as_ref() };"),
                                    (REG, "        for action in slot.actions.values() {\n            action(info);\n        }\n    } else if let Some(prev) = fallback.as_ref() {\n        // In case we get called but don't have the slot for this signal set up yet, we are under\n        // the race condition. We may have the old signal handler stored in the fallback\n        // temporarily.\n        if prev.signal == sig {", "        for action in slot.actions.values() {\n            action(info);\n        }\n        unsafe { slot.prev.execute(sig, info0, data) };\n    } else if let Some(prev) = fallback.as_ref() {\n        // In case we get called but don't have the slot for this signal set up yet, we are under\n        // the race condition. We may have the old signal handler stored in the fallback\n        // temporarily.\n        if prev.signal == sig {")], 30000),
 ("c06-capacity-4", "C06", [(CH, "const SLOTS: usize = 5;", "const SLOTS: usize = 4;")], 30000),
 ("c06-enqueue-load-store", "C06", [(CH, "        match q.compare_exchange_weak(current, modified, Ordering::Release, Ordering::Relaxed) {\n            Ok(_) => break,\n            Err(changed) => current = changed, // And retry with the changed value\n        }", "        q.store(modified, Ordering::Release);\n        if false { current = 0; }\n        break;")], 60000),
 ("c06-dequeue-lifo", "C06", [(CH, "        let val = current & MASK;\n        // It's completely empty\n        if val == 0 {\n            break None;\n        }\n        let modified = current >> BITS;", "        let last = (0..SLOTS as u16).rev().find(|i| get(current, *i) != 0);\n        let val = match last { Some(i) => get(current, i), None => 0 };\n        // It's completely empty\n        if val == 0 {\n            break None;\n        }\n        let modified = set(current, last.unwrap(), 0);")], 30000),
 ("c07-enqueue-relaxed", "C07", [(CH, "compare_exchange_weak(current, modified, Ordering::Release, Ordering::Relaxed)", "compare_exchange_weak(current, modified, Ordering::Relaxed, Ordering::Relaxed)")], 60000),
 ("c07-dequeue-relaxed", "C07", [(CH, "compare_exchange_weak(current, modified, Ordering::Acquire, Ordering::Relaxed)", "compare_exchange_weak(current, modified, Ordering::Relaxed, Ordering::Relaxed)")], 60000),
 ("c07-recv-copies", "C07", [(CH, "            let result = unsafe { &mut *self.storage[idx as usize - 1].get() }\n                .take()\n                .expect(\"Full slot with nothing in it\");", "            let result = unsafe { std::ptr::read(self.storage[idx as usize - 1].get()) }\n                .expect(\"Full slot with nothing in it\");")], 30000),
 ("c07-leak-when-full", "C07", [(CH, "            enqueue(&self.full, empty_idx);\n        }\n    }", "            enqueue(&self.full, empty_idx);\n        } else {\n            std::mem::forget(val);\n        }\n    }")], 30000),
 ("c08-send-waits-for-slot", "C08", [(CH, "        if let Some(empty_idx) = dequeue(&self.empty) {", "        let got = loop { if let Some(i) = dequeue(&self.empty) { break Some(i); } };\n        if let Some(empty_idx) = got {")], 20000),
 ("c09-wake-before-store", "C09", [(BE, "            ex.store(slot, signal, act);\n            write.wake_readers();", "            write.wake_readers();\n            ex.store(slot, signal, act);")], 60000),
 ("c10-load-does-not-clear", "C10", [(EX, "            .compare_exchange(true, false, Ordering::SeqCst, Ordering::Relaxed)\n            .is_ok()", "            .compare_exchange(true, true, Ordering::SeqCst, Ordering::Relaxed)\n            .is_ok()")], 20000),
 ("c10-scan-reports-neighbour", "C10", [(BE, "            let result = self.pending.exfiltrator.load(slot, sig as c_int);", "            let result = self.pending.exfiltrator.load(slot, (sig as c_int) ^ 1);")], 20000),
 ("c11-close-wakes-before-flag", "C11", [(BE, "        self.delivery_state.closed.store(true, Ordering::SeqCst);\n        self.write.wake_readers();", "        self.write.wake_readers();\n        self.delivery_state.closed.store(true, Ordering::SeqCst);")], 60000),
 ("c11-close-does-not-wake", "C11", [(BE, "        self.delivery_state.closed.store(true, Ordering::SeqCst);\n        self.write.wake_readers();", "        self.delivery_state.closed.store(true, Ordering::SeqCst);")], 20000),
 ("c11-poll-no-repoll", "C11", [(BE, "            match self.signals.borrow_mut().poll_pending(has_signals) {\n                Ok(Some(pending)) => self.iter = pending,", "            if self.signals.borrow_mut().handle.is_closed() { break; }\n            if false { let _ = self.signals.borrow_mut().poll_pending(has_signals); }\n            match Ok::<Option<Pending<E>>, Error>(None) {\n                Ok(Some(pending)) => self.iter = pending,")], 20000),
 ("c11-revert-fix", "C11", [(BE, "                    if self.signals.borrow_mut().handle.is_closed() {\n                        break;\n                    }\n                    return PollResult::Pending;", "                    return PollResult::Pending;")], 30000),
 ("c05-unregister-true-for-stale", "C05", [(REG, "        replace = slot.actions.remove(&id.action).is_some();", "        replace = slot.actions.remove(&id.action).is_some() || slot.actions.len() == 1;")], 8000),
 ("c05-unregister-signal-clears-others", "C05", [(REG, "        if !slot.actions.is_empty() {\n            slot.actions.clear();\n            replace = true;\n        }\n    }", "        if !slot.actions.is_empty() {\n            slot.actions.clear();\n            replace = true;\n        }\n    }\n    if replace { for (s, slot) in sigdata.signals.iter_mut() { if *s == signal + 1 { slot.actions.clear(); } } }")], 8000),
 ("c05-sa-restart-dropped", "C05", [(REG, "        let flags = libc::SA_RESTART;", "        let flags = 0;")], 2000),
 ("c05-slot-dropped-when-empty", "C05", [(REG, "        replace = slot.actions.remove(&id.action).is_some();\n    }", "        replace = slot.actions.remove(&id.action).is_some();\n    }\n    if replace && sigdata.signals.get(&id.signal).map(|s| s.actions.is_empty()).unwrap_or(false) && sigdata.signals.len() > 2 {\n        let prev = sigdata.signals.remove(&id.signal).unwrap().prev;\n        unsafe { libc::sigaction(id.signal, &prev.info, ptr::null_mut()); }\n    }")], 8000),
 ("c12-revert-poison-fix", "C12", [(BE, "        let lock = self\n            .registered_signal_ids\n            .lock()\n            .unwrap_or_else(std::sync::PoisonError::into_inner);", "        let lock = self.registered_signal_ids.lock().unwrap();")], 8000),
 ("c12-revert-init-fix", "C12", [(RAW, "        if !slot.0.load(Ordering::Acquire).is_null() {\n            return;\n        }\n", "")], 8000),
 ("c12-drop-keeps-registrations", "C12", [(BE, "        for id in lock.iter().filter_map(|s| *s) {\n            crate::low_level::unregister(id);\n        }", "        for id in lock.iter().filter_map(|s| *s).skip(1) {\n            crate::low_level::unregister(id);\n        }")], 8000),
 ("c12-failed-add-marks-watched", "C12", [(BE, "        let id = Arc::clone(&self.pending).add_signal(Arc::clone(&self.write), signal)?;\n\n        lock[signal as usize] = Some(id);", "        let id = match Arc::clone(&self.pending).add_signal(Arc::clone(&self.write), signal) {\n            Ok(id) => id,\n            Err(e) => { let any = lock.iter().filter_map(|s| *s).next(); lock[signal as usize] = any; return Err(e); }\n        };\n\n        lock[signal as usize] = Some(id);")], 8000),
 ("c13-pipe-left-blocking", "C13", [(PIPE, "            let flags = flags | libc::O_NONBLOCK | libc::O_CLOEXEC;", "            let flags = flags | libc::O_CLOEXEC;")], 1728),
 ("c13-no-close-on-removal", "C13", [(PIPE, "impl Drop for WakeFd {\n    fn drop(&mut self) {\n        unsafe {\n            libc::close(self.fd);\n        }\n    }\n}", "impl Drop for WakeFd {\n    fn drop(&mut self) {\n    }\n}")], 1728),
 ("c13-two-bytes-per-wake", "C13", [(PIPE, "            WakeMethod::Write => libc::write(pipe, data, 1),", "            WakeMethod::Write => { libc::write(pipe, data, 1); libc::write(pipe, data, 1) }")], 1728),
 ("c13-socket-wake-blocks", "C13", [(PIPE, "            WakeMethod::Send => libc::send(pipe, data, 1, MSG_NOWAIT),", "            WakeMethod::Send => libc::send(pipe, data, 1, 0),")], 1728),
 ("c14-forbidden-check-after-registration", "C14", [(REG, "    assert!(\n        !FORBIDDEN.contains(&signal),\n        \"Attempted to register forbidden signal {}\",\n        signal,\n    );\n    register_unchecked_impl(signal, action)", "    let r = register_unchecked_impl(signal, action);\n    assert!(\n        !FORBIDDEN.contains(&signal),\n        \"Attempted to register forbidden signal {}\",\n        signal,\n    );\n    r")], 4320),
 ("c14-sigill-not-forbidden", "C14", [(REG, "const FORBIDDEN_IMPL: &[c_int] = &[SIGKILL, SIGSTOP, SIGILL, SIGFPE, SIGSEGV];", "const FORBIDDEN_IMPL: &[c_int] = &[SIGKILL, SIGSTOP, SIGFPE, SIGSEGV];")], 4320),
 ("c15-exit-runs-hooks", "C15", [(LL, "        libc::_exit(status);", "        libc::exit(status);")], 8000),
 ("c15-status-truncated", "C15", [(LL, "        libc::_exit(status);", "        libc::_exit(status & 0x7f);")], 8000),
 ("c15-flag-stores-false-second-time", "C15", [(FLAG, "    unsafe { low_level::register(signal, move || flag.store(true, Ordering::SeqCst)) }", "    unsafe { low_level::register(signal, move || { let v = flag.load(Ordering::SeqCst); flag.store(!v || true && !flag.swap(true, Ordering::SeqCst) || v, Ordering::SeqCst) }) }")], 0),
 ("c15-condition-latched-at-registration", "C15", [(FLAG, "    let action = move || {\n        if condition.load(Ordering::SeqCst) {\n            low_level::exit(status);\n        }\n    };", "    let c = condition.load(Ordering::SeqCst);\n    let action = move || {\n        if c || (false && condition.load(Ordering::SeqCst)) {\n            low_level::exit(status);\n        }\n    };")], 8000),
 ("c15-shutdown-ignores-disarm", "C15", [(FLAG, "    let action = move || {\n        if condition.load(Ordering::SeqCst) {\n            low_level::exit(status);\n        }\n    };", "    let seen = AtomicBool::new(false);\n    let action = move || {\n        if condition.load(Ordering::SeqCst) || seen.load(Ordering::SeqCst) {\n            low_level::exit(status);\n        }\n    };\n    let _ = &seen;")], 0),
 ("c15-usize-value-constant", "C15", [(FLAG, "move || flag.store(value, Ordering::SeqCst)", "move || flag.store(value | 1, Ordering::SeqCst)")], 8000),
 ("c11-tokio-adapter-try-read", "C11", [(TK, "        match Pin::new(read).poll_read(ctx, &mut read_buf) {\n            Poll::Pending => Ok(false),\n            Poll::Ready(Ok(())) => Ok(true),\n            Poll::Ready(Err(error)) => Err(error),\n        }", "        let _ = (&ctx, &mut read_buf);\n        let mut b = [0u8];\n        match read.try_read(&mut b) {\n            Ok(n) => Ok(n > 0),\n            Err(e) if e.kind() == std::io::ErrorKind::WouldBlock => Ok(false),\n            Err(e) => Err(e),\n        }")], 20000),
 ("c11-asyncstd-closed-is-pending", "C11", [(AS, "            PollResult::Closed => Poll::Ready(None),", "            PollResult::Closed => Poll::Pending,")], 20000),
 ("c11-tokio-closed-is-pending", "C11", [(TK, "            PollResult::Closed => Poll::Ready(None),", "            PollResult::Closed => Poll::Pending,")], 20000),
 ("c03-iterator-action-allocates", "C03", [(BE, "            ex.store(slot, signal, act);\n            write.wake_readers();", "            ex.store(slot, signal, act);\n            let _dbg = format!(\"{}\", signal);\n            write.wake_readers();")], 12000),
 ("c18-poison-fatal", "C18", [(HL, "            .unwrap_or_else(PoisonError::into_inner);", "            .unwrap();")], 60000),
 ("c18-barrier-needs-arrival", "C18", [(HL, "*seen = *seen || slot.load(Ordering::SeqCst) == 0;", "*seen = *seen || slot.load(Ordering::SeqCst) == 1;")], 30000),
 ("c09-eintr-not-retried", "C09", [(IT, "                    if error.kind() != ErrorKind::Interrupted {\n                        break Err(error);\n                    }", "                    break Err(error);")], 30000),
]

def sh(cmd, **kw):
    return subprocess.run(cmd, shell=True, capture_output=True, text=True, **kw)

def main():
    sel = sys.argv[1:]
    st = sh("git -C /repo status --porcelain --untracked-files=no").stdout.strip()
    if st:
        print("refusing: /repo has uncommitted changes"); sys.exit(2)
    results = []
    for name, prop, edits, runs in MUTANTS:
        if sel and not any(s in name for s in sel):
            continue
        ok = True
        for f, old, new in edits:
            p = os.path.join("/repo", f)
            s = open(p).read()
            if runs == 0:
                ok = False; break
            if s.count(old) != 1:
                print(f"{name}: pattern not found exactly once in {f}"); ok = False; break
            open(p, "w").write(s.replace(old, new))
        if ok:
            t = time.time()
            r = sh(f"VERIF_RUNS={runs} /verif/check {prop} quick", cwd="/verif")
            caught = ("VIOLATION property=" + prop) in r.stdout
            line = [l for l in r.stdout.splitlines() if l.startswith("violated:")][:1]
            tail = r.stdout.strip().splitlines()[-1:] if not caught else []
            print(f"{'CAUGHT' if caught else 'MISSED'} {name} ({prop}, exit {r.returncode}, {time.time()-t:.0f}s) {line[0][:230] if line else ''} {tail[0][:200] if tail else ''}")
            results.append((name, prop, caught))
        sh("git -C /repo checkout -- .")
    missed = [r for r in results if not r[2]]
    print(f"{len(results)-len(missed)}/{len(results)} caught")
    sys.exit(1 if missed else 0)

main()
