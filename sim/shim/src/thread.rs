//! Replacement for the one `std::thread` item the library uses.

use crate::sim;

pub fn yield_now() {
    sim::spin_point(sim::EV_YIELD);
}
