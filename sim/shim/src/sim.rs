//! Scheduler, memory model, chooser, fault injection, verdicts.
//!
//! Invariant: exactly one simulated thread runs at a time (it "holds the baton"); all state in
//! `Sim` is touched only by the baton holder, so no locking is needed and every run is a pure
//! function of the choice stream.

use std::cell::Cell;
use std::collections::HashMap;
use std::sync::atomic::{AtomicBool, AtomicU32, Ordering as O};

use crate::rng::Rng;
use crate::shm::{self, Choice, Event};

pub use std::sync::atomic::Ordering;

pub const MAX_THREADS: usize = 8;
pub type VC = [u32; MAX_THREADS];
const HIST: usize = 6;

// ---------------------------------------------------------------------------------------------
// choice kinds: < 100 workload stream, >= 100 schedule/fault stream

pub const CK_WORK: u32 = 1; // generic workload draw
pub const CK_SCHED: u32 = 100;
pub const CK_INJECT: u32 = 101;
pub const CK_INJECT_WHAT: u32 = 102;
pub const CK_CAS_SPUR: u32 = 103;
pub const CK_STALE: u32 = 104;
pub const CK_FREEZE: u32 = 105;
pub const CK_FAULT: u32 = 106;
pub const CK_SYSCALL: u32 = 107;

// event kinds
pub const EV_LOAD: u16 = 1;
pub const EV_STORE: u16 = 2;
pub const EV_RMW: u16 = 3;
pub const EV_CAS_OK: u16 = 4;
pub const EV_CAS_FAIL: u16 = 5;
pub const EV_LOCK: u16 = 6;
pub const EV_UNLOCK: u16 = 7;
pub const EV_YIELD: u16 = 8;
pub const EV_SPIN: u16 = 9;
pub const EV_WAKE: u16 = 10;
pub const EV_DRAIN: u16 = 11;
pub const EV_BLOCK: u16 = 12;
pub const EV_UNBLOCK: u16 = 13;
pub const EV_SPAWN: u16 = 14;
pub const EV_FINISH: u16 = 15;
pub const EV_DELIVER_BEGIN: u16 = 16;
pub const EV_DELIVER_END: u16 = 17;
pub const EV_SNAP_ALLOC: u16 = 18;
pub const EV_SNAP_FREE: u16 = 19;
pub const EV_READ_OPEN: u16 = 20;
pub const EV_READ_CLOSE: u16 = 21;
pub const EV_CELL: u16 = 22;
pub const EV_SWITCH: u16 = 23;
pub const EV_INJECT: u16 = 24;
pub const EV_SP: u16 = 25;
pub const EV_STALE: u16 = 26;
pub const EV_FREEZE: u16 = 27;
pub const EV_CAS_SPUR: u16 = 28;
pub const EV_POST: u16 = 29;
pub const EV_SYSCALL: u16 = 30;
pub const EV_USER: u16 = 100;

pub fn ev_name(k: u16) -> &'static str {
    match k {
        EV_LOAD => "load",
        EV_STORE => "store",
        EV_RMW => "rmw",
        EV_CAS_OK => "cas_ok",
        EV_CAS_FAIL => "cas_fail",
        EV_LOCK => "lock",
        EV_UNLOCK => "unlock",
        EV_YIELD => "yield",
        EV_SPIN => "spin",
        EV_WAKE => "pipe_wake",
        EV_DRAIN => "pipe_drain",
        EV_BLOCK => "block",
        EV_UNBLOCK => "unblock",
        EV_SPAWN => "spawn",
        EV_FINISH => "finish",
        EV_DELIVER_BEGIN => "deliver_begin",
        EV_DELIVER_END => "deliver_end",
        EV_SNAP_ALLOC => "snap_alloc",
        EV_SNAP_FREE => "snap_free",
        EV_READ_OPEN => "read_open",
        EV_READ_CLOSE => "read_close",
        EV_CELL => "cell_access",
        EV_SWITCH => "switch",
        EV_INJECT => "inject",
        EV_SP => "sp",
        EV_STALE => "stale_read",
        EV_FREEZE => "freeze",
        EV_CAS_SPUR => "cas_spurious",
        EV_POST => "after_write",
        EV_SYSCALL => "syscall",
        _ => "user",
    }
}

// counters (indices into shm.counters); engines use indices >= 64
pub const C_STEPS: usize = 0;
pub const C_SWITCHES: usize = 1;
pub const C_INJECTED: usize = 2;
pub const C_CAS_SPUR: usize = 3;
pub const C_STALE: usize = 4;
pub const C_FREEZE: usize = 5;
pub const C_BLOCK_FD: usize = 6;
pub const C_BLOCK_MUTEX: usize = 7;
pub const C_SPIN_POINTS: usize = 8;
pub const C_BARRIER_LOOPED: usize = 9;
pub const C_READ_ACROSS_SWAP: usize = 10;
pub const C_NESTED_IN_STORE: usize = 11;
pub const C_FOREIGN: usize = 12;
pub const C_SILENT_SKIPPED: usize = 13;
pub const C_WAKE_EAGAIN: usize = 14;
pub const C_HB_CHECKS: usize = 15;
pub const C_DELIVERIES: usize = 16;
pub const C_DELIVER_DEFAULT: usize = 17;
pub const C_FORCED_FAIR: usize = 18;
pub const C_QUIESCENT: usize = 19;
pub const C_FLIP_WATCH: usize = 20;
pub const C_STALLED_READER: usize = 21;
pub const C_WAKE_CALLS: usize = 22;
pub const C_SYS_EINTR: usize = 23;
pub const C_ENGINE_BASE: usize = 32;

// ---------------------------------------------------------------------------------------------

thread_local! {
    static TID: Cell<usize> = const { Cell::new(usize::MAX) };
    static IN_SHIM: Cell<u32> = const { Cell::new(0) };
    static DEPTH: Cell<u32> = const { Cell::new(0) };
}

static ACTIVE: AtomicBool = AtomicBool::new(false);
static mut SIM: *mut Sim = std::ptr::null_mut();
static BATON: [AtomicU32; MAX_THREADS] = [
    AtomicU32::new(0),
    AtomicU32::new(0),
    AtomicU32::new(0),
    AtomicU32::new(0),
    AtomicU32::new(0),
    AtomicU32::new(0),
    AtomicU32::new(0),
    AtomicU32::new(0),
];
static STARTED: AtomicU32 = AtomicU32::new(0);

#[inline]
pub fn handler_depth() -> u32 {
    DEPTH.with(|d| d.get())
}
#[inline]
pub fn in_shim() -> bool {
    IN_SHIM.with(|d| d.get()) > 0
}
#[inline]
pub fn tid() -> usize {
    TID.with(|t| t.get())
}
/// True when the calling thread is a simulated thread inside an active simulation and not
/// currently executing simulator code.
#[inline]
pub fn on() -> bool {
    ACTIVE.load(O::Relaxed) && tid() != usize::MAX && !in_shim()
}
#[inline]
pub fn active() -> bool {
    ACTIVE.load(O::Relaxed)
}

pub struct ShimGuard;
impl ShimGuard {
    #[inline]
    pub fn new() -> ShimGuard {
        IN_SHIM.with(|d| d.set(d.get() + 1));
        ShimGuard
    }
}
impl Drop for ShimGuard {
    #[inline]
    fn drop(&mut self) {
        IN_SHIM.with(|d| d.set(d.get() - 1));
    }
}

#[inline]
fn sim() -> &'static mut Sim {
    unsafe { &mut *SIM }
}

fn futex_wait(w: &AtomicU32, val: u32) {
    unsafe {
        libc::syscall(
            libc::SYS_futex,
            w as *const AtomicU32,
            libc::FUTEX_WAIT | libc::FUTEX_PRIVATE_FLAG,
            val,
            std::ptr::null::<libc::timespec>(),
        );
    }
}
fn futex_wake(w: &AtomicU32) {
    unsafe {
        libc::syscall(libc::SYS_futex, w as *const AtomicU32, libc::FUTEX_WAKE | libc::FUTEX_PRIVATE_FLAG, 1);
    }
}
fn baton_wait(me: usize) {
    loop {
        if BATON[me].swap(0, O::Acquire) == 1 {
            return;
        }
        futex_wait(&BATON[me], 0);
    }
}
fn baton_pass(to: usize) {
    BATON[to].store(1, O::Release);
    futex_wake(&BATON[to]);
}

// ---------------------------------------------------------------------------------------------

#[derive(Clone, Copy, Debug, PartialEq)]
pub enum Policy {
    Uniform,
    /// switch probability in percent
    Sticky(u32),
    /// PCT with this many priority change points
    Pct(u32),
    /// forced schedule for crash-point sweeps: run `first` until it has made `until_own` own
    /// steps, then freeze it and everybody else except `then` and thread 0
    Script { first: usize, until_own: u64, then: usize },
}

#[derive(Clone, Debug)]
pub struct Config {
    pub prop: String,
    pub policy: Policy,
    pub silent: bool,
    pub wm: bool,
    /// probability (num/den) that an eligible scheduling point gets a nested injection
    pub inject_num: u32,
    pub inject_den: u32,
    pub inject_budget: u32,
    pub max_nest: u32,
    /// percent chance that a weak CAS fails spuriously (≤ 3 in a row)
    pub cas_spurious_pct: u32,
    pub step_budget: u64,
    /// expected order of magnitude of steps, for PCT change points
    pub pct_horizon: u32,
}

impl Default for Config {
    fn default() -> Config {
        Config {
            prop: String::new(),
            policy: Policy::Uniform,
            silent: false,
            wm: false,
            inject_num: 0,
            inject_den: 1,
            inject_budget: 0,
            max_nest: 1,
            cas_spurious_pct: 0,
            step_budget: 20_000,
            pct_horizon: 200,
        }
    }
}

#[derive(Clone, Copy, Debug, PartialEq)]
pub enum TState {
    Runnable,
    BlockedMutex(usize),
    BlockedFd(i32),
    BlockedJoin(usize),
    WaitQuiescent,
    Finished,
}

pub struct Thread {
    pub state: TState,
    pub frozen: bool,
    pub spinning: bool,
    spin_epoch: u64,
    spin_stuck: u32,
    pub vc: VC,
    pub own_steps: u64,
    pub handler_sigs: [i32; 4],
    pub handler_n: usize,
    last_sched: u64,
    prio: i64,
    /// open read sections: (snapshot ptr, handler depth, generation location, op-seq of the generation sample)
    pub open_reads: Vec<(usize, u32, usize, u64)>,
    /// generation samples not yet followed by the pointer load: (generation location, op-seq, handler depth)
    sampling: Vec<(usize, u64, u32)>,
    /// read sections whose end was announced (read_close) but whose counter decrement has not
    /// executed yet: (generation location, sample op-seq, handler depth)
    closing: Vec<(usize, u64, u32)>,
    flip_watch: Option<FlipWatch>,
    store_begin_seq: u64,
    handler_entry_opseq: u64,
    pub wake_calls: u64,
    pub spins: u64,
    pub own_steps0: u64,
    pub name: &'static str,
    cas_spur_run: u32,
    eintr_run: u32,
    silent_run: u32,
    pub in_store: u32,
    handler_entry_own: u64,
    held_mutexes: u32,
    last_alloc: usize,
}

/// C18: after the writer's generation switch at op-seq `flip`, the readers that can legitimately
/// hold it up are those that sampled the generation before (`pending` of them are still inside).
#[derive(Clone, Copy, Debug)]
struct FlipWatch {
    gen: usize,
    flip: u64,
    clean: bool,
    pending: u32,
    armed: bool,
    own0_at_arm: u64,
}

#[derive(Clone, Copy)]
struct Msg {
    val: u64,
    writer: u8,
    wclock: u32,
    has_rel: bool,
    rel: VC,
}

struct Loc {
    id: u32,
    hist: Vec<Msg>,
    base_ts: u64,
    seen: [u64; MAX_THREADS],
    last_sc: u64,
    owner: i32,
    shared: bool,
}

struct MutexSt {
    owner: Option<usize>,
    clock: VC,
}

struct Snapshot {
    id: u32,
    live: bool,
    open: u32,
    closes: Vec<(u8, u32)>,
}

struct CellSt {
    tid: u8,
    clock: u32,
}

pub enum ChooserMode {
    Prng(Rng),
    Replay { w: Vec<u32>, wi: usize, s: Vec<u32>, si: usize },
}

pub struct InjectCtx {
    pub tid: usize,
    pub depth: u32,
}

pub struct DeadlockInfo {
    pub states: Vec<(TState, bool, &'static str)>,
    pub livelock: bool,
    pub who: usize,
}

pub struct Sim {
    pub cfg: Config,
    pub threads: Vec<Thread>,
    pub cur: usize,
    pub steps: u64,
    pub switches: u64,
    write_epoch: u64,
    scv: VC,
    pipe_clock: VC,
    locs: HashMap<usize, Loc>,
    next_loc: u32,
    mutexes: HashMap<usize, MutexSt>,
    snaps: HashMap<usize, Snapshot>,
    next_snap: u32,
    cells: HashMap<usize, CellSt>,
    chooser: ChooserMode,
    pct_changes: Vec<u64>,
    inject_left: u32,
    injector: Option<Box<dyn FnMut(&InjectCtx) -> bool>>,
    classify_deadlock: Option<Box<dyn Fn(&DeadlockInfo) -> (String, String, String)>>,
    sig_hash: u64,
    swap_seen_open: bool,
    pub stop_inject: bool,
    opseq: u64,
    /// generation counter address -> (op-seq of the latest switch, op-seq of the latest close of a
    /// late reader, op-seq since which samples of it are observed)
    gen_locs: HashMap<usize, (u64, u64, u64)>,
    step_hook: Option<Box<dyn FnMut()>>,
    handler_step_limit: u64,
    limit_prop: String,
    forced: Option<(usize, u64, usize)>,
    pub auto_thaw: bool,
    thread_panic_prop: Option<String>,
    thread_panic_rules: Vec<(String, String)>,
    /// fault: stall one delivery that began after a writer's generation switch inside its read
    /// section until that writer has finished (Some(remaining uses))
    pub stall_later_reader: u32,
    /// fault: percent chance that an interposed blocking recv() fails with EINTR (<= 2 in a row)
    pub recv_eintr_pct: u32,
    /// the thread that alone drains the self-pipe (iterator engine), if any
    pub pipe_consumer: Option<usize>,
    stalled_for: Option<(usize, usize)>,
    /// how many consecutive fruitless solo spin points make a livelock (default 2)
    pub spin_patience: u32,
    pub inject_at: Option<(usize, u64)>,
}

// ---------------------------------------------------------------------------------------------
// set-up / tear-down

/// Install the chooser.  Must be called (in the forked child) before any `choose*`.
pub fn init(mode: ChooserMode) {
    let _g = ShimGuard::new();
    let s = Box::new(Sim {
        cfg: Config::default(),
        threads: Vec::new(),
        cur: 0,
        steps: 0,
        switches: 0,
        write_epoch: 0,
        scv: [0; MAX_THREADS],
        pipe_clock: [0; MAX_THREADS],
        locs: HashMap::new(),
        next_loc: 0,
        mutexes: HashMap::new(),
        snaps: HashMap::new(),
        next_snap: 0,
        cells: HashMap::new(),
        chooser: mode,
        pct_changes: Vec::new(),
        inject_left: 0,
        injector: None,
        classify_deadlock: None,
        sig_hash: 0xcbf29ce484222325,
        swap_seen_open: false,
        stop_inject: false,
        opseq: 0,
        gen_locs: HashMap::new(),
        step_hook: None,
        handler_step_limit: 0,
        limit_prop: String::from("C03"),
        forced: None,
        auto_thaw: false,
        thread_panic_prop: None,
        thread_panic_rules: Vec::new(),
        stall_later_reader: 0,
        recv_eintr_pct: 0,
        pipe_consumer: None,
        stalled_for: None,
        spin_patience: 2,
        inject_at: None,
    });
    unsafe {
        SIM = Box::into_raw(s);
    }
}

/// Start the simulation: the calling thread becomes simulated thread 0 and holds the baton.
pub fn start(cfg: Config) {
    let _g = ShimGuard::new();
    let s = sim();
    s.inject_left = cfg.inject_budget;
    if let Policy::Pct(d) = cfg.policy {
        if let ChooserMode::Prng(ref mut r) = s.chooser {
            for _ in 0..d {
                s.pct_changes.push(1 + r.below(cfg.pct_horizon.max(2)) as u64);
            }
        }
    }
    s.cfg = cfg;
    if let Ok(p) = std::env::var("VSIM_CHECK_AS") {
        // debugging aid: evaluate this run as if another property were being checked
        s.cfg.prop = p;
    }
    let prio = s.fresh_prio();
    s.threads.push(Thread::new("main", [0; MAX_THREADS], prio));
    s.threads[0].vc[0] = 1;
    s.cur = 0;
    TID.with(|t| t.set(0));
    ACTIVE.store(true, O::SeqCst);
}

pub fn set_injector(f: Box<dyn FnMut(&InjectCtx) -> bool>) {
    let _g = ShimGuard::new();
    sim().injector = Some(f);
}
pub fn set_deadlock_classifier(f: Box<dyn Fn(&DeadlockInfo) -> (String, String, String)>) {
    let _g = ShimGuard::new();
    sim().classify_deadlock = Some(f);
}

/// End the run with verdict OK (only thread 0 should call this).
pub fn finish_ok() -> ! {
    let _g = ShimGuard::new();
    flush_stats();
    let sh = shm::get();
    sh.verdict = shm::V_OK;
    unsafe { libc::_exit(0) }
}

fn flush_stats() {
    if unsafe { SIM.is_null() } {
        return;
    }
    let s = sim();
    let sh = shm::get();
    sh.steps = s.steps;
    sh.switches = s.switches;
    sh.nthreads = s.threads.len() as u32;
    sh.sig_hash = s.sig_hash;
    sh.counters[C_STEPS] = s.steps;
    sh.counters[C_SWITCHES] = s.switches;
}

pub fn checking(prop: &str) -> bool {
    if unsafe { SIM.is_null() } {
        return true;
    }
    sim().cfg.prop == prop
}

/// Report a violation of `prop`.  If `prop` is the property under check the run ends with a
/// VIOLATION verdict.  Otherwise it is counted; if `fatal` the run ends as FOREIGN.
pub fn report(prop: &str, oracle: &str, msg: &str, fatal: bool) {
    let _g = ShimGuard::new();
    let own = checking(prop);
    if !own {
        count(C_FOREIGN, 1);
        if !fatal {
            return;
        }
    }
    flush_stats();
    let sh = shm::get();
    shm::put_str(&mut sh.prop, prop);
    shm::put_str(&mut sh.oracle, oracle);
    shm::put_str(&mut sh.msg, msg);
    sh.verdict = if own { shm::V_VIOLATION } else { shm::V_FOREIGN };
    unsafe { libc::_exit(0) }
}

pub fn violation(prop: &str, oracle: &str, msg: &str) -> ! {
    report(prop, oracle, msg, true);
    unreachable!()
}

pub fn harness_error(msg: &str) -> ! {
    let _g = ShimGuard::new();
    flush_stats();
    let sh = shm::get();
    shm::put_str(&mut sh.oracle, "harness");
    shm::put_str(&mut sh.msg, msg);
    sh.verdict = shm::V_HARNESS;
    unsafe { libc::_exit(0) }
}

#[inline]
pub fn count(idx: usize, n: u64) {
    if shm::is_set() {
        shm::get().counters[idx] += n;
    }
}
pub fn mark_nontrivial() {
    if shm::is_set() {
        shm::get().nontrivial = 1;
    }
}
pub fn note(s: &str) {
    let _g = ShimGuard::new();
    let sh = shm::get();
    let off = sh.note_len as usize;
    let n = s.len().min(shm::NOTE_BYTES - off);
    sh.note[off..off + n].copy_from_slice(&s.as_bytes()[..n]);
    sh.note_len = (off + n) as u32;
}

pub fn log(kind: u16, a: u64, b: u64) {
    if !shm::is_set() {
        return;
    }
    let sh = shm::get();
    let (step, t) = if unsafe { SIM.is_null() } { (0, 0) } else { (sim().steps as u32, sim().cur as u8) };
    let i = sh.evtotal as usize % shm::MAX_EV;
    sh.ev[i] = Event { step, tid: t, depth: handler_depth() as u8, kind, a, b };
    sh.evtotal += 1;
}

// ---------------------------------------------------------------------------------------------
// chooser

fn record(kind: u32, n: u32, v: u32) {
    let sh = shm::get();
    if kind < 100 {
        let i = sh.wlen as usize;
        if i < shm::MAX_W {
            sh.w[i] = Choice { kind, n, v };
            sh.wlen += 1;
        } else {
            harness_error("workload choice buffer overflow");
        }
    } else {
        let i = sh.slen as usize;
        if i < shm::MAX_S {
            sh.s[i] = Choice { kind, n, v };
            sh.slen += 1;
        } else {
            harness_error("schedule choice buffer overflow");
        }
    }
}

pub fn replaying() -> bool {
    matches!(sim().chooser, ChooserMode::Replay { .. })
}

fn replay_next(kind: u32, n: u32) -> Option<u32> {
    if let ChooserMode::Replay { ref w, ref mut wi, ref s, ref mut si } = sim().chooser {
        let v = if kind < 100 {
            let v = w.get(*wi).copied().unwrap_or(0);
            *wi += 1;
            v
        } else {
            let v = s.get(*si).copied().unwrap_or(0);
            *si += 1;
            v
        };
        Some(if n == 0 { 0 } else { v % n })
    } else {
        None
    }
}

fn rand_below(n: u32) -> u32 {
    match sim().chooser {
        ChooserMode::Prng(ref mut r) => r.below(n),
        _ => 0,
    }
}

/// Uniform choice in 0..n, recorded.
pub fn choose(kind: u32, n: u32) -> u32 {
    let _g = ShimGuard::new();
    let v = match replay_next(kind, n) {
        Some(v) => v,
        None => rand_below(n),
    };
    record(kind, n, v);
    v
}

/// Weighted choice: returns index i with probability weights[i]/sum, recorded as the index.
pub fn choose_weighted(kind: u32, weights: &[u32]) -> u32 {
    let _g = ShimGuard::new();
    let n = weights.len() as u32;
    let v = match replay_next(kind, n) {
        Some(v) => v,
        None => {
            let total: u32 = weights.iter().sum();
            let mut x = rand_below(total.max(1));
            let mut idx = 0;
            for (i, w) in weights.iter().enumerate() {
                if x < *w {
                    idx = i as u32;
                    break;
                }
                x -= *w;
            }
            idx
        }
    };
    record(kind, n, v);
    v
}

/// Biased coin: true with probability num/den; recorded as 0/1 (0 = "nothing unusual").
pub fn coin(kind: u32, num: u32, den: u32) -> bool {
    if num == 0 {
        // still consume a slot in replay mode? no: a configuration with num == 0 never draws.
        return false;
    }
    let _g = ShimGuard::new();
    let v = match replay_next(kind, 2) {
        Some(v) => v,
        None => (rand_below(den) < num) as u32,
    };
    record(kind, 2, v);
    v == 1
}

pub fn work(n: u32) -> u32 {
    choose(CK_WORK, n)
}
pub fn work_coin(num: u32, den: u32) -> bool {
    coin(CK_WORK, num, den)
}

// ---------------------------------------------------------------------------------------------

impl Thread {
    fn new(name: &'static str, vc: VC, prio: i64) -> Thread {
        Thread {
            state: TState::Runnable,
            frozen: false,
            spinning: false,
            spin_epoch: 0,
            spin_stuck: 0,
            vc,
            own_steps: 0,
            handler_sigs: [0; 4],
            handler_n: 0,
            last_sched: 0,
            prio,
            open_reads: Vec::new(),
            sampling: Vec::new(),
            closing: Vec::new(),
            flip_watch: None,
            store_begin_seq: 0,
            handler_entry_opseq: 0,
            wake_calls: 0,
            spins: 0,
            own_steps0: 0,
            name,
            cas_spur_run: 0,
            eintr_run: 0,
            silent_run: 0,
            in_store: 0,
            handler_entry_own: 0,
            held_mutexes: 0,
            last_alloc: 0,
        }
    }
}

fn vc_join(a: &mut VC, b: &VC) {
    for i in 0..MAX_THREADS {
        if b[i] > a[i] {
            a[i] = b[i];
        }
    }
}

fn fd_readable(fd: i32) -> bool {
    let mut p = libc::pollfd { fd, events: libc::POLLIN, revents: 0 };
    let r = unsafe { libc::poll(&mut p, 1, 0) };
    r > 0
}

impl Sim {
    fn fresh_prio(&mut self) -> i64 {
        match self.chooser {
            ChooserMode::Prng(ref mut r) => 1000 + r.below(1_000_000) as i64,
            _ => 1000,
        }
    }

    fn hash_ev(&mut self, t: usize, kind: u16, loc: u32, depth: u32) {
        let mut h = self.sig_hash;
        for b in [t as u64, kind as u64, loc as u64, depth as u64] {
            h ^= b;
            h = h.wrapping_mul(0x100000001b3);
        }
        self.sig_hash = h;
    }

    /// Threads that may be scheduled now, after promoting whoever stopped being blocked.
    fn candidates(&mut self, out: &mut [usize; MAX_THREADS]) -> usize {
        let n = self.threads.len();
        for i in 0..n {
            match self.threads[i].state {
                TState::BlockedFd(fd) => {
                    if fd_readable(fd) {
                        self.threads[i].state = TState::Runnable;
                        log(EV_UNBLOCK, i as u64, fd as u64);
                    }
                }
                TState::BlockedJoin(t) => {
                    if self.threads[t].state == TState::Finished {
                        self.threads[i].state = TState::Runnable;
                    }
                }
                _ => {}
            }
        }
        let mut k = 0;
        for i in 0..n {
            if self.threads[i].state == TState::Runnable && !self.threads[i].frozen {
                out[k] = i;
                k += 1;
            }
        }
        if k == 0 && self.auto_thaw && self.threads.iter().any(|t| t.frozen) {
            // an engine-made freeze outlived its purpose (the solo thread finished): thaw
            for t in self.threads.iter_mut() {
                t.frozen = false;
            }
            log(EV_FREEZE, 0, 9);
            for i in 0..n {
                if self.threads[i].state == TState::Runnable {
                    out[k] = i;
                    k += 1;
                }
            }
        }
        if k == 0 {
            // quiescence: release the lowest waiting thread
            for i in 0..n {
                if self.threads[i].state == TState::WaitQuiescent && !self.threads[i].frozen {
                    self.threads[i].state = TState::Runnable;
                    count(C_QUIESCENT, 1);
                    out[0] = i;
                    return 1;
                }
            }
        }
        k
    }

    fn pick(&mut self, me: usize, cand: &[usize]) -> usize {
        // canonical order for the recorded value: me first (if candidate), then ascending tid
        let mut order = [0usize; MAX_THREADS];
        let mut k = 0;
        if cand.contains(&me) {
            order[0] = me;
            k = 1;
        }
        for c in cand {
            if *c != me {
                order[k] = *c;
                k += 1;
            }
        }
        let order = &order[..k];
        if k == 1 {
            return order[0];
        }
        if let Some(v) = replay_next(CK_SCHED, k as u32) {
            record(CK_SCHED, k as u32, v);
            return order[v as usize];
        }
        // fairness: somebody runnable, not spinning, starved for 200 steps
        let mut chosen: Option<usize> = None;
        for c in order {
            let th = &self.threads[*c];
            if !th.spinning && self.steps.saturating_sub(th.last_sched) > 200 {
                chosen = Some(*c);
                count(C_FORCED_FAIR, 1);
                break;
            }
        }
        if chosen.is_none() {
            chosen = Some(match self.cfg.policy {
                Policy::Uniform | Policy::Sticky(_) => {
                    let stay = match self.cfg.policy {
                        Policy::Sticky(p) => order[0] == me && !self.threads[me].spinning && rand_below(100) >= p,
                        _ => false,
                    };
                    if stay {
                        me
                    } else {
                        // spinners get weight 1, others weight 8
                        let mut total = 0;
                        for c in order {
                            total += if self.threads[*c].spinning { 1 } else { 8 };
                        }
                        let mut x = rand_below(total);
                        let mut pickd = order[0];
                        for c in order {
                            let w = if self.threads[*c].spinning { 1 } else { 8 };
                            if x < w {
                                pickd = *c;
                                break;
                            }
                            x -= w;
                        }
                        pickd
                    }
                }
                Policy::Script { first, until_own, then } => {
                    let _ = until_own;
                    if order.contains(&first) {
                        first
                    } else {
                        let mut c = order[0];
                        for o in order {
                            if *o == then && !self.threads[*o].frozen {
                                c = *o;
                            }
                        }
                        if self.threads[c].frozen {
                            for o in order {
                                if !self.threads[*o].frozen {
                                    c = *o;
                                    break;
                                }
                            }
                        }
                        c
                    }
                }
                Policy::Pct(_) => {
                    if self.pct_changes.contains(&self.steps) {
                        let low = self.threads.iter().map(|t| t.prio).min().unwrap_or(0) - 1;
                        self.threads[me].prio = low;
                    }
                    let mut best = order[0];
                    for c in order {
                        if self.threads[*c].prio > self.threads[best].prio {
                            best = *c;
                        }
                    }
                    best
                }
            });
        }
        let c = chosen.unwrap();
        let v = order.iter().position(|x| *x == c).unwrap() as u32;
        record(CK_SCHED, k as u32, v);
        c
    }

    fn describe(&self) -> String {
        let mut s = String::new();
        for (i, t) in self.threads.iter().enumerate() {
            s.push_str(&format!(
                "T{}({}):{:?}{}{}{} ",
                i,
                t.name,
                t.state,
                if t.frozen { "+frozen" } else { "" },
                if t.spinning { "+spinning" } else { "" },
                if t.handler_n > 0 { "+in-handler" } else { "" }
            ));
        }
        s
    }

    fn deadlock(&mut self, me: usize, livelock: bool) -> ! {
        let info = DeadlockInfo {
            states: self.threads.iter().map(|t| (t.state, t.frozen, t.name)).collect(),
            livelock,
            who: me,
        };
        let desc = self.describe();
        if let Some((rt, wt)) = self.stalled_for {
            let msg = format!(
                "writer T{} cannot finish its barrier while delivery on T{} - which began after the writer's generation switch, when every earlier reader had a clean slot - is stalled inside its read section: the writer waits for later deliveries, so a stream of overlapping finite deliveries starves it ({} at step {}: {})",
                wt,
                rt,
                if livelock { "livelock" } else { "deadlock" },
                self.steps,
                desc
            );
            violation("C18", "barrier-waits-for-later-readers", &msg);
        }
        let (prop, oracle, extra) = match self.classify_deadlock {
            Some(ref f) => f(&info),
            None => ("C18".to_string(), if livelock { "livelock" } else { "deadlock" }.to_string(), String::new()),
        };
        let msg = format!(
            "{} at step {}: no thread can make progress: {} {}",
            if livelock { "livelock" } else { "deadlock" },
            self.steps,
            desc,
            extra
        );
        if prop == "HARNESS" {
            harness_error(&msg);
        }
        violation(&prop, &oracle, &msg)
    }

    /// Give the processor to somebody (maybe `me` again).  `me` may be non-runnable.
    fn reschedule(&mut self, me: usize) {
        // forced-schedule fault of the sweeps: freeze everybody but `then` once `first` has made
        // `until_own` own steps (a state change, so it must not depend on PRNG vs replay mode)
        if let Policy::Script { first, until_own, then } = self.cfg.policy {
            if self.threads.len() > first && !self.threads[first].frozen && self.threads[first].own_steps >= until_own && self.threads[first].state != TState::Finished {
                for i in 1..self.threads.len() {
                    if i != then && self.threads[i].state != TState::Finished {
                        self.threads[i].frozen = true;
                    }
                }
                count(C_FREEZE, 1);
                log(EV_FREEZE, first as u64, 3);
            }
        }
        let mut cand = [0usize; MAX_THREADS];
        let k = self.candidates(&mut cand);
        if k == 0 {
            self.deadlock(me, false);
        }
        let mut forced_next = None;
        if let Some((t, until, back)) = self.forced {
            if self.threads[t].own_steps < until && cand[..k].contains(&t) {
                forced_next = Some(t);
            } else {
                self.forced = None;
                if cand[..k].contains(&back) {
                    forced_next = Some(back);
                }
            }
        }
        let next = match forced_next {
            Some(t) => t,
            None => self.pick(me, &cand[..k]),
        };
        self.threads[next].last_sched = self.steps;
        if next != me {
            self.switches += 1;
            self.cur = next;
            log(EV_SWITCH, me as u64, next as u64);
            baton_pass(next);
            baton_wait(me);
            // we are current again
        }
    }
}

/// A scheduling point.  `addr` identifies the location for silent-location purposes (0 = none).
pub fn sp(kind: u16, addr: usize) {
    if !on() {
        return;
    }
    let _g = ShimGuard::new();
    let s = sim();
    let me = s.cur;
    debug_assert_eq!(me, tid());
    let depth = handler_depth();
    let mut locid = 0;
    if addr != 0 {
        let owner_key = (me * 2 + (depth > 0) as usize) as i32;
        let silent = s.cfg.silent;
        let l = s.loc_entry(addr);
        locid = l.id;
        if !l.shared {
            if l.owner < 0 {
                l.owner = owner_key;
            }
            if l.owner == owner_key {
                if silent {
                    // (a thread that spins on a location only it has touched would never reach a
                    // scheduling point: after 20 000 silent operations in a row the location stops
                    // being silent, the others get to run and the step budget applies)
                    let run = &mut s.threads[me].silent_run;
                    *run += 1;
                    if *run <= 20_000 {
                        count(C_SILENT_SKIPPED, 1);
                        log(kind, addr as u64, u64::MAX);
                        return;
                    }
                    s.loc_entry(addr).shared = true;
                }
            } else {
                l.shared = true;
            }
        }
    }
    s.steps += 1;
    s.threads[me].own_steps += 1;
    s.threads[me].silent_run = 0;
    if depth == 0 {
        s.threads[me].own_steps0 += 1;
        if let Some(wa) = s.threads[me].flip_watch {
            if wa.armed && wa.clean && s.threads[me].own_steps0 - wa.own0_at_arm > 30 {
                let d = s.describe();
                report(
                    "C18",
                    "barrier-waits-for-later-readers",
                    &format!(
                        "every delivery that had sampled the generation before writer T{}'s generation switch has left its read section, yet the writer made {} more own steps inside the barrier without finishing: it is waiting for deliveries that began after the switch, so an unbounded stream of overlapping finite deliveries starves it: {}",
                        me,
                        s.threads[me].own_steps0 - wa.own0_at_arm,
                        d
                    ),
                    true,
                );
            }
        }
    }
    s.hash_ev(me, kind, locid, depth);
    log(kind, locid as u64, 0);
    if s.steps > s.cfg.step_budget {
        let d = s.describe();
        harness_error(&format!("step budget {} exceeded: {}", s.cfg.step_budget, d));
    }
    if depth > 0 && s.handler_step_limit > 0 && s.threads[me].own_steps - s.threads[me].handler_entry_own > s.handler_step_limit {
        let d = s.describe();
        let lim = s.handler_step_limit;
        let lp = s.limit_prop.clone();
        report(&lp, "unbounded-delivery", &format!("a signal delivery on T{} has made more than {} own steps without returning: {}", me, lim, d), true);
    }
    if s.step_hook.is_some() {
        let mut h = s.step_hook.take().unwrap();
        h();
        sim().step_hook = Some(h);
    }
    let s = sim();
    // fault layer: nested injection on this very thread
    if s.injector.is_some()
        && !s.stop_inject
        && s.inject_left > 0
        && depth < s.cfg.max_nest
        && s.threads[me].state == TState::Runnable
        && !s.threads[me].frozen
    {
        let (num, den) = (s.cfg.inject_num, s.cfg.inject_den);
        let forced = match s.inject_at {
            Some((t, own)) => Some(t == me && s.threads[me].own_steps == own && depth == 0),
            None => None,
        };
        let go = match forced {
            Some(b) => b,
            None => coin(CK_INJECT, num, den),
        };
        if go {
            let mut inj = s.injector.take().unwrap();
            let ctx = InjectCtx { tid: me, depth };
            log(EV_INJECT, me as u64, depth as u64);
            // run the engine's injected operation as ordinary simulated code of this thread
            IN_SHIM.with(|d| d.set(d.get() - 1));
            let did = inj(&ctx);
            IN_SHIM.with(|d| d.set(d.get() + 1));
            let s = sim();
            s.injector = Some(inj);
            if did {
                s.inject_left -= 1;
                count(C_INJECTED, 1);
            }
        }
    }
    sim().reschedule(me);
}

/// Explicit scheduling point for harness-side actions.
pub fn sp_user() {
    sp(EV_SP, 0);
}

pub fn steps() -> u64 {
    sim().steps
}
pub fn own_steps() -> u64 {
    let s = sim();
    s.threads[s.cur].own_steps
}
pub fn cur() -> usize {
    sim().cur
}
pub fn nthreads() -> usize {
    sim().threads.len()
}
pub fn my_vc() -> VC {
    let s = sim();
    s.threads[s.cur].vc
}
pub fn thread_state(t: usize) -> TState {
    sim().threads[t].state
}
pub fn set_step_hook(f: Box<dyn FnMut()>) {
    let _g = ShimGuard::new();
    sim().step_hook = Some(f);
}
pub fn set_handler_step_limit(n: u64) {
    sim().handler_step_limit = n;
}
pub fn set_handler_step_limit_for(n: u64, prop: &str) {
    let _g = ShimGuard::new();
    sim().handler_step_limit = n;
    sim().limit_prop = prop.to_string();
}
/// Increment the calling thread's own clock component (engines stamp operation invoke/return).
pub fn tick() -> VC {
    let s = sim();
    let me = s.cur;
    s.threads[me].vc[me] += 1;
    s.threads[me].vc
}
/// Enter / leave "signal handler context" for an engine-made nested operation that is not a
/// signal delivery (e.g. a nested channel send standing for a handler's send).
pub fn enter_handler() {
    DEPTH.with(|d| d.set(d.get() + 1));
    let s = sim();
    let me = s.cur;
    if s.threads[me].handler_n == 0 {
        s.threads[me].handler_entry_own = s.threads[me].own_steps;
    }
    if s.threads[me].handler_n < 4 {
        let n = s.threads[me].handler_n;
        s.threads[me].handler_sigs[n] = 0;
    }
    s.threads[me].handler_n += 1;
}
pub fn exit_handler() {
    DEPTH.with(|d| d.set(d.get() - 1));
    let s = sim();
    let me = s.cur;
    s.threads[me].handler_n -= 1;
}
pub fn cas_spurious_fired() -> u64 {
    if shm::is_set() { shm::get().counters[C_CAS_SPUR] } else { 0 }
}
pub fn wm_on() -> bool {
    sim().cfg.wm
}
pub fn set_inject_at(t: usize, own: u64) {
    sim().inject_at = Some((t, own));
}
pub fn thread_in_store(t: usize) -> bool {
    sim().threads[t].in_store > 0
}
pub fn thread_own_steps(t: usize) -> u64 {
    sim().threads[t].own_steps
}
pub fn thread_frozen(t: usize) -> bool {
    sim().threads[t].frozen
}
/// Scripted set-up step: let thread `t` run (exclusively) until it has made `until_own` own steps
/// (or cannot run), then come back to the caller.  Consumes no choices.
pub fn run_until_own(t: usize, until_own: u64) {
    let me = sim().cur;
    sim().forced = Some((t, until_own, me));
    sp(EV_SP, 0);
}
/// Fold engine-level information (e.g. the operation history) into the run's signature.
pub fn sig_mix(v: u64) {
    let s = sim();
    let mut h = s.sig_hash;
    h ^= v;
    h = h.wrapping_mul(0x100000001b3);
    s.sig_hash = h;
}
/// Write the statistics gathered so far into the shared block (before an expected process exit).
pub fn flush() {
    let _g = ShimGuard::new();
    flush_stats();
}
/// A panic that escapes a simulated thread is a violation of `prop` (default: harness error).
pub fn set_thread_panic_prop(prop: &str) {
    let _g = ShimGuard::new();
    sim().thread_panic_prop = Some(prop.to_string());
}
/// ... unless its message contains `substr`: then it is a violation of `prop`.
pub fn add_thread_panic_rule(substr: &str, prop: &str) {
    let _g = ShimGuard::new();
    sim().thread_panic_rules.push((substr.to_string(), prop.to_string()));
}
/// Number of self-pipe wake-up writes the calling thread has attempted so far.
pub fn my_wake_calls() -> u64 {
    let s = sim();
    s.threads[s.cur].wake_calls
}
pub fn note_wake_call() {
    let s = sim();
    let me = s.cur;
    s.threads[me].wake_calls += 1;
}
pub fn set_spin_patience(n: u32) {
    sim().spin_patience = n;
}
pub fn thread_spins(t: usize) -> u64 {
    sim().threads[t].spins
}
pub fn thaw(t: usize) {
    sim().threads[t].frozen = false;
    log(EV_FREEZE, t as u64, 6);
}
pub fn set_stall_later_reader(n: u32) {
    sim().stall_later_reader = n;
}
pub fn set_auto_thaw(b: bool) {
    sim().auto_thaw = b;
}
pub fn set_stop_inject(b: bool) {
    sim().stop_inject = b;
}
pub fn inject_left() -> u32 {
    sim().inject_left
}
pub fn in_handler_for(sig: i32) -> bool {
    let s = sim();
    let t = &s.threads[s.cur];
    t.handler_sigs[..t.handler_n].contains(&sig)
}
pub fn any_thread_in_handler() -> bool {
    sim().threads.iter().any(|t| t.handler_n > 0)
}

/// a ≺ b for clocks taken with `my_vc()` at the return of a and the invocation of b:
/// `ret_a` happens-before `inv_b` iff b's clock has seen a's thread at a's own component.
pub fn vc_leq(a: &VC, a_tid: usize, b: &VC) -> bool {
    b[a_tid] >= a[a_tid]
}

// ---------------------------------------------------------------------------------------------
// threads

/// Like `spawn`, but hands the closure back when all thread slots are taken (decided atomically
/// with the spawn: no scheduling point in between).
pub fn try_spawn<F: FnOnce() + Send + 'static>(name: &'static str, f: F) -> Result<usize, Option<F>> {
    if sim().threads.len() >= MAX_THREADS {
        return Err(Some(f));
    }
    Ok(spawn(name, f))
}

pub fn spawn<F: FnOnce() + Send + 'static>(name: &'static str, f: F) -> usize {
    assert!(on(), "spawn outside simulation");
    let _g = ShimGuard::new();
    let s = sim();
    let me = s.cur;
    let id = s.threads.len();
    assert!(id < MAX_THREADS, "too many simulated threads");
    s.threads[me].vc[me] += 1;
    let mut vc = s.threads[me].vc;
    vc[id] = 1;
    let prio = s.fresh_prio();
    s.threads.push(Thread::new(name, vc, prio));
    log(EV_SPAWN, id as u64, 0);
    STARTED.store(0, O::SeqCst);
    let b = std::thread::Builder::new().stack_size(512 * 1024);
    b.spawn(move || {
        TID.with(|t| t.set(id));
        STARTED.store(1, O::SeqCst);
        futex_wake(&STARTED);
        baton_wait(id);
        let r = std::panic::catch_unwind(std::panic::AssertUnwindSafe(f));
        let _g = ShimGuard::new();
        if r.is_err() {
            let msg = format!("simulated thread {} ({}) panicked inside a library call: {}", id, name, shm::get_str(&shm::get().panic_msg));
            let rules = sim().thread_panic_rules.clone();
            for (sub, p) in rules.iter() {
                if msg.contains(sub.as_str()) {
                    report(p, "library-call-panicked", &msg, true);
                }
            }
            if let Some(p) = sim().thread_panic_prop.clone() {
                report(&p, "library-call-panicked", &msg, true);
            }
            harness_error(&msg);
        }
        let s = sim();
        s.threads[id].state = TState::Finished;
        log(EV_FINISH, id as u64, 0);
        // hand the baton on; we never run again
        let mut cand = [0usize; MAX_THREADS];
        let k = s.candidates(&mut cand);
        if k == 0 {
            s.deadlock(id, false);
        }
        let next = s.pick(id, &cand[..k]);
        s.threads[next].last_sched = s.steps;
        s.switches += 1;
        s.cur = next;
        log(EV_SWITCH, id as u64, next as u64);
        TID.with(|t| t.set(usize::MAX));
        baton_pass(next);
    })
    .expect("thread spawn");
    while STARTED.load(O::SeqCst) == 0 {
        futex_wait(&STARTED, 0);
    }
    id
}

pub fn join(t: usize) {
    assert!(on());
    let _g = ShimGuard::new();
    let s = sim();
    let me = s.cur;
    loop {
        let s = sim();
        if s.threads[t].state == TState::Finished {
            let vc = s.threads[t].vc;
            vc_join(&mut s.threads[me].vc, &vc);
            s.threads[me].state = TState::Runnable;
            return;
        }
        s.threads[me].state = TState::BlockedJoin(t);
        s.reschedule(me);
    }
}

/// Park until no other thread can run (all blocked, finished, frozen or waiting like us).
pub fn wait_quiescent() {
    assert!(on());
    let _g = ShimGuard::new();
    let s = sim();
    let me = s.cur;
    s.threads[me].state = TState::WaitQuiescent;
    s.reschedule(me);
    let s = sim();
    debug_assert_eq!(s.threads[me].state, TState::Runnable);
    let _ = s;
}

/// Freeze (stall) a set of threads: they are never scheduled again until thawed.
pub fn freeze(t: usize) {
    let s = sim();
    s.threads[t].frozen = true;
    count(C_FREEZE, 1);
    log(EV_FREEZE, t as u64, 1);
}
pub fn freeze_all_but(me: usize) {
    let s = sim();
    for i in 0..s.threads.len() {
        if i != me && s.threads[i].state != TState::Finished {
            s.threads[i].frozen = true;
        }
    }
    count(C_FREEZE, 1);
    log(EV_FREEZE, me as u64, 2);
}
pub fn thaw_all() {
    let s = sim();
    for t in s.threads.iter_mut() {
        t.frozen = false;
    }
    log(EV_FREEZE, 0, 0);
}

// ---------------------------------------------------------------------------------------------
// spinning

pub fn spin_point(kind: u16) {
    if !on() {
        if kind == EV_YIELD {
            std::thread::yield_now();
        }
        return;
    }
    {
        let _g = ShimGuard::new();
        if handler_depth() > 0 {
            report("C03", "wait-in-handler", "a signal delivery yielded / spun waiting for another thread", false);
        }
        count(C_SPIN_POINTS, 1);
        count(C_BARRIER_LOOPED, 1);
        let s = sim();
        let me = s.cur;
        let epoch = s.write_epoch;
        let mut cand = [0usize; MAX_THREADS];
        let k = s.candidates(&mut cand);
        let others = cand[..k].iter().any(|c| *c != me);
        let th = &mut s.threads[me];
        if th.spinning && th.spin_epoch == epoch && !others {
            th.spin_stuck += 1;
            if th.spin_stuck >= s.spin_patience {
                s.deadlock(me, true);
            }
        } else {
            th.spin_stuck = 0;
        }
        th.spinning = true;
        th.spins += 1;
        th.spin_epoch = epoch;
        if let Policy::Pct(_) = s.cfg.policy {
            // classic PCT: a yield drops the priority below everybody
            let low = s.threads.iter().map(|t| t.prio).min().unwrap_or(0) - 1;
            s.threads[me].prio = low;
        }
    }
    sp(kind, 0);
}

// ---------------------------------------------------------------------------------------------
// memory model

fn is_acq(o: Ordering) -> bool {
    matches!(o, Ordering::Acquire | Ordering::AcqRel | Ordering::SeqCst)
}
fn is_rel(o: Ordering) -> bool {
    matches!(o, Ordering::Release | Ordering::AcqRel | Ordering::SeqCst)
}

impl Sim {
    fn loc_entry(&mut self, addr: usize) -> &mut Loc {
        if !self.locs.contains_key(&addr) {
            let id = self.next_loc;
            self.next_loc += 1;
            self.locs.insert(
                addr,
                Loc { id, hist: Vec::with_capacity(HIST + 1), base_ts: 0, seen: [0; MAX_THREADS], last_sc: 0, owner: -1, shared: false },
            );
        }
        self.locs.get_mut(&addr).unwrap()
    }

    fn ensure_init(&mut self, addr: usize, current: u64) {
        let l = self.loc_entry(addr);
        // All writes inside a simulation go through the shim, so the newest message always
        // equals the real value - unless a new object now lives at this address (moved or
        // re-created value): then start a fresh history.
        if l.hist.last().map(|m| m.val != current).unwrap_or(false) {
            l.hist.clear();
            l.base_ts = 0;
            l.seen = [0; MAX_THREADS];
            l.last_sc = 0;
            l.owner = -1;
            l.shared = false;
        }
        if l.hist.is_empty() {
            l.hist.push(Msg { val: current, writer: 255, wclock: 0, has_rel: false, rel: [0; MAX_THREADS] });
        }
    }

    fn write_clears_spin(&mut self, me: usize) {
        self.write_epoch += 1;
        self.threads[me].spinning = false;
        self.threads[me].spin_stuck = 0;
    }
}

/// Model a load; `current` is the real atomic's (newest) value.  Returns the value read.
/// Freed blocks are filled with 0xDD and never reused during a run (alloc.rs): a shim atomic whose
/// word is all 0xDD lives in freed memory.  (No value the library stores has that shape: queue
/// words use 15 bits, counters never get that far, pointers are never 0xDD..DD.)
#[inline]
fn poison_check(addr: usize, current: u64) {
    if current == 0xDDDD || current == 0xDDDD_DDDD || current == 0xDDDD_DDDD_DDDD_DDDD {
        poisoned(addr, current);
    }
}

#[cold]
fn poisoned(addr: usize, current: u64) {
    let prop = {
        let p = shm::get_str(&shm::get().crash_prop);
        if p.is_empty() { "C01".to_string() } else { p }
    };
    let me = sim().cur;
    report(&prop, "atomic-operation-on-freed-memory", &format!("T{} performs an atomic operation on address {:#x} whose word is {:#x}: the object it belongs to has been freed (freed memory is poisoned and never reused during a run)", me, addr, current), true);
}

pub fn mm_load(addr: usize, ord: Ordering, current: u64) -> u64 {
    let _g = ShimGuard::new();
    poison_check(addr, current);
    let s = sim();
    let me = s.cur;
    s.opseq += 1;
    if s.gen_locs.contains_key(&addr) {
        let q = s.opseq;
        let d = handler_depth();
        s.threads[me].sampling.retain(|(_, _, dd)| *dd != d);
        s.threads[me].sampling.push((addr, q, d));
    }
    s.ensure_init(addr, current);
    let wm = s.cfg.wm && !s.threads[me].spinning;
    let vc = s.threads[me].vc;
    let l = s.locs.get_mut(&addr).unwrap();
    let latest = l.base_ts + l.hist.len() as u64 - 1;
    let mut idx = latest;
    if wm && l.hist.len() > 1 {
        // oldest message this thread may still read
        let mut min_ts = l.seen[me].max(l.base_ts);
        if ord == Ordering::SeqCst {
            // an SC load never reads a write older than the last SC write to this location
            min_ts = min_ts.max(l.last_sc);
        }
        for (i, m) in l.hist.iter().enumerate() {
            let ts = l.base_ts + i as u64;
            if ts > min_ts && (m.writer == 255 || vc[m.writer as usize] >= m.wclock) {
                min_ts = ts;
            }
        }
        if min_ts < latest {
            let span = (latest - min_ts + 1) as u32;
            // 0 = newest
            let mut w = [0u32; HIST + 1];
            w[0] = 70;
            for i in 1..span as usize {
                w[i] = (30 / (span - 1)).max(1);
            }
            let back = choose_weighted(CK_STALE, &w[..span as usize]);
            idx = latest - back as u64;
            if back > 0 {
                count(C_STALE, 1);
                log(EV_STALE, l.id as u64, back as u64);
            }
        }
    }
    let l = sim().locs.get_mut(&addr).unwrap();
    let m = l.hist[(idx - l.base_ts) as usize];
    l.seen[me] = idx;
    let s = sim();
    if is_acq(ord) && m.has_rel {
        vc_join(&mut s.threads[me].vc, &m.rel);
    }
    m.val
}

fn push_msg(l: &mut Loc, me: usize, m: Msg) {
    l.hist.push(m);
    if l.hist.len() > HIST {
        l.hist.remove(0);
        l.base_ts += 1;
    }
    l.seen[me] = l.base_ts + l.hist.len() as u64 - 1;
}

/// Model a store of `newval` (the real store has been / will be done by the caller).
pub fn mm_store(addr: usize, ord: Ordering, before: u64, newval: u64) {
    let _g = ShimGuard::new();
    let s = sim();
    let me = s.cur;
    s.ensure_init(addr, before);
    s.threads[me].vc[me] += 1;
    let vc = s.threads[me].vc;
    let m = Msg { val: newval, writer: me as u8, wclock: vc[me], has_rel: is_rel(ord), rel: if is_rel(ord) { vc } else { [0; MAX_THREADS] } };
    let l = s.locs.get_mut(&addr).unwrap();
    push_msg(l, me, m);
    if ord == Ordering::SeqCst {
        l.last_sc = l.base_ts + l.hist.len() as u64 - 1;
    }
    s.write_clears_spin(me);
}

/// The counter decrement that ends a read section has executed.
fn finalize_close(s: &mut Sim, me: usize) {
    let depth = handler_depth();
    let pos = match s.threads[me].closing.iter().rposition(|(_, _, d)| *d == depth) {
        Some(p) => p,
        None => return,
    };
    let (gl, gq, _) = s.threads[me].closing.remove(pos);
    s.opseq += 1;
    let now = s.opseq;
    if gl == 0 {
        // a section whose generation sample we did not see (it began before the generation
        // counter's address was known): conservatively a late reader of every half-lock
        for (_, v) in s.gen_locs.iter_mut() {
            v.1 = now;
        }
        return;
    }
    if let Some((last_flip, stale_close, _)) = s.gen_locs.get_mut(&gl) {
        if gq < *last_flip {
            // this reader sampled the generation before the latest switch
            *stale_close = now;
        }
    }
    // writers watching this reader
    for t in 0..s.threads.len() {
        let own0 = s.threads[t].own_steps0;
        if let Some(wa) = s.threads[t].flip_watch.as_mut() {
            if wa.gen == gl && gq < wa.flip && wa.pending > 0 {
                wa.pending -= 1;
                if wa.pending == 0 {
                    wa.armed = true;
                    wa.own0_at_arm = own0;
                }
            }
        }
    }
}

/// Model a successful read-modify-write (reads the newest message).
pub fn mm_rmw(addr: usize, ord: Ordering, before: u64, newval: u64) {
    let _g = ShimGuard::new();
    poison_check(addr, before);
    let s = sim();
    let me = s.cur;
    if !s.threads[me].closing.is_empty() {
        finalize_close(s, me);
    }
    s.ensure_init(addr, before);
    let prev = *s.locs.get(&addr).unwrap().hist.last().unwrap();
    if is_acq(ord) && prev.has_rel {
        vc_join(&mut s.threads[me].vc, &prev.rel);
    }
    s.threads[me].vc[me] += 1;
    let vc = s.threads[me].vc;
    let mut rel = if prev.has_rel { prev.rel } else { [0; MAX_THREADS] };
    if is_rel(ord) {
        vc_join(&mut rel, &vc);
    }
    let m = Msg { val: newval, writer: me as u8, wclock: vc[me], has_rel: prev.has_rel || is_rel(ord), rel };
    let l = s.locs.get_mut(&addr).unwrap();
    push_msg(l, me, m);
    if ord == Ordering::SeqCst {
        l.last_sc = l.base_ts + l.hist.len() as u64 - 1;
    }
    s.write_clears_spin(me);
}

/// Model a failed CAS (a load of the newest message with the failure ordering).
pub fn mm_cas_fail(addr: usize, ord: Ordering, current: u64) {
    let _g = ShimGuard::new();
    poison_check(addr, current);
    let s = sim();
    let me = s.cur;
    s.ensure_init(addr, current);
    let l = s.locs.get_mut(&addr).unwrap();
    let latest = l.base_ts + l.hist.len() as u64 - 1;
    l.seen[me] = latest;
    let m = *l.hist.last().unwrap();
    if is_acq(ord) && m.has_rel {
        vc_join(&mut s.threads[me].vc, &m.rel);
    }
}

/// Should this weak CAS fail spuriously?  (≤ 3 in a row per thread)
pub fn cas_spurious() -> bool {
    let s = sim();
    let me = s.cur;
    let pct = s.cfg.cas_spurious_pct;
    if pct == 0 {
        return false;
    }
    if s.threads[me].cas_spur_run >= 3 {
        s.threads[me].cas_spur_run = 0;
        return false;
    }
    if coin(CK_CAS_SPUR, pct, 100) {
        let s = sim();
        s.threads[me].cas_spur_run += 1;
        count(C_CAS_SPUR, 1);
        log(EV_CAS_SPUR, 0, 0);
        true
    } else {
        sim().threads[me].cas_spur_run = 0;
        false
    }
}

pub fn set_pipe_consumer(t: usize) {
    sim().pipe_consumer = Some(t);
}
pub fn pipe_consumer() -> Option<usize> {
    sim().pipe_consumer
}

pub fn set_recv_eintr_pct(n: u32) {
    sim().recv_eintr_pct = n;
}

/// Fault at the system-call seam: should this recv() on a simulated thread fail with EINTR (a
/// handler installed without SA_RESTART by somebody else interrupted it)?  At most two in a row
/// per thread, never inside a delivery.
pub fn recv_eintr() -> bool {
    if !on() {
        return false;
    }
    let _g = ShimGuard::new();
    let s = sim();
    let me = s.cur;
    let pct = s.recv_eintr_pct;
    if pct == 0 || s.threads[me].handler_n > 0 {
        return false;
    }
    if s.threads[me].eintr_run >= 2 {
        s.threads[me].eintr_run = 0;
        return false;
    }
    if coin(CK_SYSCALL, pct, 100) {
        sim().threads[me].eintr_run += 1;
        count(C_SYS_EINTR, 1);
        true
    } else {
        sim().threads[me].eintr_run = 0;
        false
    }
}

/// An AtomicPtr swap published `newptr`: if that is the snapshot this thread just allocated, the
/// thread is now "inside store(), change published" until the matching free.
pub fn note_ptr_swap(newptr: usize) {
    let s = sim();
    let me = s.cur;
    if newptr != 0 && s.threads[me].last_alloc == newptr {
        s.threads[me].in_store += 1;
        s.threads[me].last_alloc = 0;
    }
}

pub fn forget_loc(addr: usize) {
    if unsafe { SIM.is_null() } {
        return;
    }
    let _g = ShimGuard::new();
    sim().locs.remove(&addr);
}

// ---------------------------------------------------------------------------------------------
// mutex

pub fn mutex_lock(addr: usize) {
    {
        let _g = ShimGuard::new();
        if handler_depth() > 0 {
            report("C03", "lock-in-handler", "a signal delivery acquired a mutex", false);
        }
    }
    sp(EV_LOCK, 0);
    let _g = ShimGuard::new();
    let me = sim().cur;
    loop {
        let s = sim();
        let m = s.mutexes.entry(addr).or_insert(MutexSt { owner: None, clock: [0; MAX_THREADS] });
        if m.owner.is_none() {
            m.owner = Some(me);
            s.threads[me].held_mutexes += 1;
            let c = m.clock;
            vc_join(&mut s.threads[me].vc, &c);
            s.threads[me].state = TState::Runnable;
            s.write_clears_spin(me);
            return;
        }
        if m.owner == Some(me) {
            let d = s.describe();
            report("C03", "self-deadlock", &format!("thread re-locks a mutex it already holds (nested delivery?): {}", d), false);
            violation("C18", "deadlock", &format!("thread {} re-locks a mutex it holds: {}", me, d));
        }
        count(C_BLOCK_MUTEX, 1);
        log(EV_BLOCK, me as u64, addr as u64 & 0xffff);
        s.threads[me].state = TState::BlockedMutex(addr);
        s.reschedule(me);
    }
}

pub fn mutex_unlock(addr: usize) {
    sp(EV_UNLOCK, 0);
    let _g = ShimGuard::new();
    let s = sim();
    let me = s.cur;
    s.threads[me].vc[me] += 1;
    let vc = s.threads[me].vc;
    if let Some(m) = s.mutexes.get_mut(&addr) {
        m.owner = None;
        m.clock = vc;
    }
    if s.threads[me].held_mutexes > 0 {
        s.threads[me].held_mutexes -= 1;
    }
    if s.threads[me].held_mutexes == 0 {
        s.threads[me].in_store = 0;
    }
    for t in s.threads.iter_mut() {
        if t.state == TState::BlockedMutex(addr) {
            t.state = TState::Runnable;
        }
    }
    s.write_clears_spin(me);
}

// ---------------------------------------------------------------------------------------------
// hook events (snapshots, cells, pipes)

pub fn ev_snap_alloc(p: usize) {
    let _g = ShimGuard::new();
    let s = sim();
    let id = s.next_snap;
    s.next_snap += 1;
    s.snaps.insert(p, Snapshot { id, live: true, open: 0, closes: Vec::new() });
    let me = s.cur;
    s.threads[me].last_alloc = p;
    s.opseq += 1;
    s.threads[me].store_begin_seq = s.opseq;
    if s.threads.iter().any(|t| !t.open_reads.is_empty()) {
        count(C_READ_ACROSS_SWAP, 1);
    }
    log(EV_SNAP_ALLOC, id as u64, 0);
}

fn take_sample(t: &mut Thread, depth: u32) -> (usize, u64) {
    match t.sampling.iter().rposition(|(_, _, d)| *d == depth) {
        Some(i) => {
            let (g, q, _) = t.sampling.remove(i);
            (g, q)
        }
        None => (0, 0),
    }
}

pub fn ev_read_open(p: usize) {
    let _g = ShimGuard::new();
    let s = sim();
    let me = s.cur;
    let depth = handler_depth();
    match s.snaps.get_mut(&p) {
        Some(sn) => {
            log(EV_READ_OPEN, sn.id as u64, 0);
            if !sn.live {
                let id = sn.id;
                violation("C01", "read-of-freed-snapshot", &format!("T{} opened a read section on snapshot #{} which had already been freed (step {})", me, id, s.steps));
            }
            sn.open += 1;
            let (gl, gq) = take_sample(&mut s.threads[me], depth);
            s.threads[me].open_reads.push((p, depth, gl, gq));
            if s.stall_later_reader > 0 && s.stalled_for.is_none() && gl != 0 && depth == 1 {
                // is there a writer whose generation switch this reader came after?
                let wr = (0..s.threads.len()).find(|t| *t != me && s.threads[*t].flip_watch.map(|wa| wa.clean && wa.gen == gl && gq > wa.flip).unwrap_or(false) && !s.threads[*t].frozen);
                if let Some(wt) = wr {
                    s.stall_later_reader -= 1;
                    s.stalled_for = Some((me, wt));
                    s.threads[me].frozen = true;
                    count(C_FREEZE, 1);
                    count(C_STALLED_READER, 1);
                    log(EV_FREEZE, me as u64, 4);
                }
            }
        }
        None => {
            // snapshot allocated before the simulation started: adopt it
            let id = s.next_snap;
            s.next_snap += 1;
            s.snaps.insert(p, Snapshot { id, live: true, open: 1, closes: Vec::new() });
            let (gl, gq) = take_sample(&mut s.threads[me], depth);
            s.threads[me].open_reads.push((p, depth, gl, gq));
            log(EV_READ_OPEN, id as u64, 1);
        }
    }
}

pub fn ev_read_close(p: usize) {
    let _g = ShimGuard::new();
    let s = sim();
    let me = s.cur;
    s.threads[me].vc[me] += 1;
    let c = s.threads[me].vc[me];
    if let Some(pos) = s.threads[me].open_reads.iter().rposition(|(q, _, _, _)| *q == p) {
        let (_, d, gl, gq) = s.threads[me].open_reads.remove(pos);
        // the slot counter is only released by the fetch_sub that follows
        s.threads[me].closing.push((gl, gq, d));
    }
    if let Some(sn) = s.snaps.get_mut(&p) {
        log(EV_READ_CLOSE, sn.id as u64, 0);
        if !sn.live {
            let id = sn.id;
            violation("C01", "read-of-freed-snapshot", &format!("T{} closed a read section on snapshot #{} after it had been freed (step {})", me, id, s.steps));
        }
        if sn.open > 0 {
            sn.open -= 1;
        }
        sn.closes.push((me as u8, c));
    }
}

/// A `swap` of the snapshot pointer is about to retire snapshot `p`... we only learn `p` at free
/// time, so the "read open across a swap" probe is evaluated there.
pub fn ev_snap_free(p: usize) {
    let _g = ShimGuard::new();
    let s = sim();
    let me = s.cur;
    let vc = s.threads[me].vc;
    let depth = handler_depth();
    let steps = s.steps;
    if s.threads[me].in_store > 0 {
        s.threads[me].in_store -= 1;
    }
    if let Some(wa) = s.threads[me].flip_watch.take() {
        if wa.armed && wa.clean {
            count(C_FLIP_WATCH, 1);
        }
    }
    if let Some((rt, wt)) = s.stalled_for {
        if wt == me {
            s.threads[rt].frozen = false;
            s.stalled_for = None;
            log(EV_FREEZE, rt as u64, 5);
        }
    }
    let mut holders = String::new();
    for (i, t) in s.threads.iter().enumerate() {
        for (q, d, _, _) in t.open_reads.iter() {
            if *q == p {
                holders.push_str(&format!("T{}(depth {}) ", i, d));
            }
        }
    }
    match s.snaps.get_mut(&p) {
        Some(sn) => {
            log(EV_SNAP_FREE, sn.id as u64, 0);
            let id = sn.id;
            if !sn.live {
                violation("C01", "double-free-of-snapshot", &format!("snapshot #{} freed twice (T{}, step {})", id, me, steps));
            }
            if sn.open > 0 || !holders.is_empty() {
                violation(
                    "C01",
                    "free-while-read",
                    &format!("T{} frees snapshot #{} at step {} while a read section on it is open on {}", me, id, steps, holders),
                );
            }
            count(C_HB_CHECKS, sn.closes.len() as u64);
            for (t, c) in sn.closes.iter() {
                if (*t as usize) != me && vc[*t as usize] < *c {
                    violation(
                        "C01",
                        "free-not-ordered-after-read",
                        &format!(
                            "T{} frees snapshot #{} at step {}, but the end of a read section of T{} (its clock {}) does not happen-before the free under the declared orderings (freeing thread has seen clock {})",
                            me, id, steps, t, c, vc[*t as usize]
                        ),
                    );
                }
            }
            if depth > 0 {
                report("C01", "free-inside-handler", &format!("snapshot #{} freed inside a signal handler (T{}, step {})", id, me, steps), true);
            }
            sn.live = false;
            sn.closes.clear();
        }
        None => {
            log(EV_SNAP_FREE, u64::MAX, 0);
        }
    }
}

pub fn ev_gen_flip(gen: usize) {
    let _g = ShimGuard::new();
    let s = sim();
    let me = s.cur;
    s.opseq += 1;
    let f = s.opseq;
    let known = s.gen_locs.contains_key(&gen);
    let (prev_flip, stale_close, known_since) = s.gen_locs.get(&gen).copied().unwrap_or((0, 0, f));
    let mut pending = 0u32;
    let mut clean = true;
    let mut any_open = false;
    for (i, t) in s.threads.iter().enumerate() {
        for (_, d, gl, gq) in t.open_reads.iter() {
            any_open = true;
            if *gl == gen {
                // the writer's own nested deliveries are synchronous: never still open here
                let _ = (i, d);
                pending += 1;
                if *gq < prev_flip {
                    clean = false; // a late reader of an older generation may sit in the other slot
                }
            } else if *gl == 0 {
                clean = false; // a section whose generation sample we did not see
            }
        }
        for (gl, gq, _) in t.sampling.iter() {
            if *gl == gen {
                pending += 1;
                if *gq < prev_flip {
                    clean = false;
                }
            }
        }
        for (gl, gq, _) in t.closing.iter() {
            any_open = true;
            if *gl == gen {
                pending += 1;
                if *gq < prev_flip {
                    clean = false;
                }
            } else if *gl == 0 {
                clean = false;
            }
        }
    }
    if !known && any_open {
        clean = false;
    }
    // a thread that entered its handler before samples of this counter were observed may have
    // sampled it unseen
    for (i, t) in s.threads.iter().enumerate() {
        if i != me && t.handler_n > 0 && t.handler_entry_opseq <= known_since {
            clean = false;
        }
    }
    if stale_close > s.threads[me].store_begin_seq {
        clean = false; // a late reader left the other slot after this writer's first look at it
    }
    s.gen_locs.insert(gen, (f, stale_close, known_since));
    let armed = pending == 0;
    let own0 = s.threads[me].own_steps0;
    s.threads[me].flip_watch = Some(FlipWatch { gen, flip: f, clean, pending, armed, own0_at_arm: own0 });
}

pub fn ev_cell_access(p: usize, is_write: bool) {
    let _g = ShimGuard::new();
    let s = sim();
    let me = s.cur;
    s.threads[me].vc[me] += 1;
    let vc = s.threads[me].vc;
    let steps = s.steps;
    let id = s.loc_entry(p).id;
    log(EV_CELL, id as u64, is_write as u64);
    if let Some(prev) = s.cells.get(&p) {
        if prev.tid as usize != me && vc[prev.tid as usize] < prev.clock {
            if checking("C06") {
                // a data race on a cell makes the value outcomes undefined: under the declared
                // orderings the channel may invent, lose or tear a value
                report("C06", "cell-race-permits-value-corruption", &format!("T{} and T{} access channel cell L{} without happens-before under the declared orderings: the received value is undefined", me, prev.tid, id), true);
            }
            violation(
                "C07",
                "cell-race",
                &format!(
                    "T{} {} channel cell L{} at step {} without happens-before from the previous access by T{} (its clock {}, seen {}) under the channel's declared orderings",
                    me,
                    if is_write { "writes" } else { "takes from" },
                    id,
                    steps,
                    prev.tid,
                    prev.clock,
                    vc[prev.tid as usize]
                ),
            );
        }
    }
    s.cells.insert(p, CellSt { tid: me as u8, clock: vc[me] });
}

pub fn ev_pipe_release() {
    let _g = ShimGuard::new();
    let s = sim();
    let me = s.cur;
    s.threads[me].vc[me] += 1;
    let vc = s.threads[me].vc;
    vc_join(&mut s.pipe_clock, &vc);
    s.write_clears_spin(me);
}

pub fn ev_pipe_acquire() {
    let _g = ShimGuard::new();
    let s = sim();
    let me = s.cur;
    let pc = s.pipe_clock;
    vc_join(&mut s.threads[me].vc, &pc);
}

/// Park the calling simulated thread until `fd` is readable (data or hang-up).
pub fn block_fd(fd: i32) {
    let _g = ShimGuard::new();
    let me = sim().cur;
    loop {
        if fd_readable(fd) {
            sim().threads[me].state = TState::Runnable;
            return;
        }
        let s = sim();
        count(C_BLOCK_FD, 1);
        log(EV_BLOCK, me as u64, fd as u64);
        s.threads[me].state = TState::BlockedFd(fd);
        s.reschedule(me);
    }
}

// ---------------------------------------------------------------------------------------------
// deliveries

#[derive(Debug, Clone, Copy, PartialEq)]
pub enum Disposition {
    Default,
    Ignored,
    Handler(usize),
    Invalid,
}

/// Deliver `sig` on the calling thread, right now: call whatever disposition the real kernel
/// reports at this instant.  No scheduling point of its own.
pub fn deliver(sig: i32, info: *mut libc::siginfo_t, ctx: *mut libc::c_void) -> Disposition {
    let mut cur: libc::sigaction = unsafe { std::mem::zeroed() };
    if unsafe { libc::sigaction(sig, std::ptr::null(), &mut cur) } != 0 {
        return Disposition::Invalid;
    }
    let h = cur.sa_sigaction;
    if h == libc::SIG_DFL {
        count(C_DELIVER_DEFAULT, 1);
        return Disposition::Default;
    }
    if h == libc::SIG_IGN {
        count(C_DELIVER_DEFAULT, 1);
        return Disposition::Ignored;
    }
    let simulated = on();
    if simulated {
        let s = sim();
        let me = s.cur;
        let t = &mut s.threads[me];
        if t.handler_n < 4 {
            t.handler_sigs[t.handler_n] = sig;
        }
        if t.handler_n == 0 {
            t.handler_entry_own = t.own_steps;
            t.handler_entry_opseq = s.opseq;
        }
        t.handler_n += 1;
        count(C_DELIVERIES, 1);
        log(EV_DELIVER_BEGIN, sig as u64, h as u64 & 0xffff);
    }
    DEPTH.with(|d| d.set(d.get() + 1));
    if shm::is_set() {
        shm::get().in_handler_now += 1;
        // fault: a signal interrupts a thread whose errno holds anything, in particular the EINTR
        // of the very call it interrupted (deterministic rotation, no PRNG draw)
        let n = shm::get().counters[C_DELIVERIES] + shm::get().counters[C_DELIVER_DEFAULT];
        unsafe { *libc::__errno_location() = [libc::EINTR, 0, libc::EAGAIN, libc::EINTR, libc::EBADF][(n % 5) as usize] };
    }
    unsafe {
        if cur.sa_flags & libc::SA_SIGINFO != 0 {
            let f: extern "C" fn(i32, *mut libc::siginfo_t, *mut libc::c_void) = std::mem::transmute(h);
            f(sig, info, ctx);
        } else {
            let f: extern "C" fn(i32) = std::mem::transmute(h);
            f(sig);
        }
    }
    if shm::is_set() {
        shm::get().in_handler_now -= 1;
    }
    DEPTH.with(|d| d.set(d.get() - 1));
    if simulated {
        let s = sim();
        let me = s.cur;
        s.threads[me].handler_n -= 1;
        log(EV_DELIVER_END, sig as u64, 0);
    }
    Disposition::Handler(h)
}

/// Install a panic hook that records the message (and whether a handler was running) in the
/// shared block and stays silent on stderr.
pub fn install_panic_hook(quiet: bool) {
    std::panic::set_hook(Box::new(move |info| {
        let _g = ShimGuard::new();
        let msg = format!("{}", info);
        if shm::is_set() {
            let sh = shm::get();
            shm::put_str(&mut sh.panic_msg, &msg);
            if handler_depth() > 0 {
                sh.panic_in_handler = 1;
            }
        }
        if !quiet {
            eprintln!("{}", msg);
        }
    }));
}
