//! Replacements for the `std::sync` items signal-hook uses.  Every operation is a scheduling
//! point and updates the memory model; outside a simulation they are the std operation.

pub use std::sync::{LockResult, PoisonError};

use crate::sim;

pub struct Mutex<T> {
    inner: std::sync::Mutex<T>,
}

pub struct MutexGuard<'a, T: 'a> {
    // Option so that Drop can release the real guard before the simulated unlock
    real: Option<std::sync::MutexGuard<'a, T>>,
    addr: usize,
    simulated: bool,
}

impl<T> Mutex<T> {
    pub const fn new(v: T) -> Mutex<T> {
        Mutex { inner: std::sync::Mutex::new(v) }
    }

    pub fn lock(&self) -> LockResult<MutexGuard<'_, T>> {
        let addr = self as *const _ as usize;
        let simulated = sim::on();
        if simulated {
            sim::mutex_lock(addr);
        }
        // Simulated ownership has been acquired, so the real lock is uncontended; it supplies
        // genuine poisoning semantics.
        match self.inner.lock() {
            Ok(g) => Ok(MutexGuard { real: Some(g), addr, simulated }),
            Err(p) => Err(PoisonError::new(MutexGuard { real: Some(p.into_inner()), addr, simulated })),
        }
    }
}

impl<T: Default> Default for Mutex<T> {
    fn default() -> Self {
        Mutex::new(T::default())
    }
}

impl<T: std::fmt::Debug> std::fmt::Debug for Mutex<T> {
    fn fmt(&self, f: &mut std::fmt::Formatter<'_>) -> std::fmt::Result {
        f.write_str("Mutex { .. }")
    }
}

impl<'a, T> std::ops::Deref for MutexGuard<'a, T> {
    type Target = T;
    fn deref(&self) -> &T {
        self.real.as_ref().unwrap()
    }
}
impl<'a, T> std::ops::DerefMut for MutexGuard<'a, T> {
    fn deref_mut(&mut self) -> &mut T {
        self.real.as_mut().unwrap()
    }
}
impl<'a, T> Drop for MutexGuard<'a, T> {
    fn drop(&mut self) {
        // real guard first (records poisoning if we are unwinding), then the simulated release
        drop(self.real.take());
        if self.simulated && sim::active() && sim::tid() != usize::MAX {
            sim::mutex_unlock(self.addr);
            // a thread can be descheduled right after it released a lock, before anything it
            // does next (dropping a private copy, say)
            sim::sp(sim::EV_POST, 0);
        }
    }
}

pub mod atomic {
    pub use std::sync::atomic::Ordering;
    use std::sync::atomic as sa;

    use crate::sim::{self, EV_CAS_FAIL, EV_CAS_OK, EV_LOAD, EV_RMW, EV_SPIN, EV_STORE};

    #[allow(deprecated)]
    pub fn spin_loop_hint() {
        sim::spin_point(EV_SPIN);
    }

    pub fn fence(o: Ordering) {
        sa::fence(o);
    }

    macro_rules! int_atomic {
        ($name:ident, $std:ident, $t:ty) => {
            #[derive(Default)]
            pub struct $name(sa::$std);

            impl std::fmt::Debug for $name {
                fn fmt(&self, f: &mut std::fmt::Formatter<'_>) -> std::fmt::Result {
                    write!(f, "{:?}", self.0.load(Ordering::Relaxed))
                }
            }

            impl $name {
                pub const fn new(v: $t) -> Self {
                    $name(sa::$std::new(v))
                }
                #[inline]
                fn addr(&self) -> usize {
                    self as *const _ as usize
                }
                pub fn load(&self, o: Ordering) -> $t {
                    if !sim::on() {
                        return self.0.load(o);
                    }
                    sim::sp(EV_LOAD, self.addr());
                    let cur = self.0.load(Ordering::SeqCst);
                    sim::mm_load(self.addr(), o, cur as u64) as $t
                }
                pub fn store(&self, v: $t, o: Ordering) {
                    if !sim::on() {
                        return self.0.store(v, o);
                    }
                    sim::sp(EV_STORE, self.addr());
                    let before = self.0.load(Ordering::SeqCst);
                    self.0.store(v, Ordering::SeqCst);
                    sim::mm_store(self.addr(), o, before as u64, v as u64);
                    sim::sp(sim::EV_POST, self.addr());
                }
                fn rmw(&self, o: Ordering, f: impl FnOnce(&sa::$std) -> $t) -> $t {
                    if !sim::on() {
                        return f(&self.0);
                    }
                    sim::sp(EV_RMW, self.addr());
                    let old = f(&self.0);
                    let new = self.0.load(Ordering::SeqCst);
                    sim::mm_rmw(self.addr(), o, old as u64, new as u64);
                    sim::sp(sim::EV_POST, self.addr());
                    old
                }
                pub fn swap(&self, v: $t, o: Ordering) -> $t {
                    self.rmw(o, |a| a.swap(v, Ordering::SeqCst))
                }
                pub fn fetch_add(&self, v: $t, o: Ordering) -> $t {
                    self.rmw(o, |a| a.fetch_add(v, Ordering::SeqCst))
                }
                pub fn fetch_sub(&self, v: $t, o: Ordering) -> $t {
                    self.rmw(o, |a| a.fetch_sub(v, Ordering::SeqCst))
                }
                pub fn fetch_or(&self, v: $t, o: Ordering) -> $t {
                    self.rmw(o, |a| a.fetch_or(v, Ordering::SeqCst))
                }
                pub fn fetch_and(&self, v: $t, o: Ordering) -> $t {
                    self.rmw(o, |a| a.fetch_and(v, Ordering::SeqCst))
                }
                fn cas(&self, cur: $t, new: $t, s: Ordering, f: Ordering, weak: bool) -> Result<$t, $t> {
                    if !sim::on() {
                        return if weak {
                            self.0.compare_exchange_weak(cur, new, s, f)
                        } else {
                            self.0.compare_exchange(cur, new, s, f)
                        };
                    }
                    sim::sp(EV_CAS_OK, self.addr());
                    if weak && sim::cas_spurious() {
                        let now = self.0.load(Ordering::SeqCst);
                        sim::mm_cas_fail(self.addr(), f, now as u64);
                        sim::log(EV_CAS_FAIL, 0, 1);
                        return Err(now);
                    }
                    match self.0.compare_exchange(cur, new, Ordering::SeqCst, Ordering::SeqCst) {
                        Ok(old) => {
                            sim::mm_rmw(self.addr(), s, old as u64, new as u64);
                            sim::sp(sim::EV_POST, self.addr());
                            Ok(old)
                        }
                        Err(now) => {
                            sim::mm_cas_fail(self.addr(), f, now as u64);
                            sim::log(EV_CAS_FAIL, 0, 0);
                            sim::count(sim::C_ENGINE_BASE - 1, 1);
                            Err(now)
                        }
                    }
                }
                pub fn compare_exchange(&self, cur: $t, new: $t, s: Ordering, f: Ordering) -> Result<$t, $t> {
                    self.cas(cur, new, s, f, false)
                }
                pub fn compare_exchange_weak(&self, cur: $t, new: $t, s: Ordering, f: Ordering) -> Result<$t, $t> {
                    self.cas(cur, new, s, f, true)
                }
                pub fn get_mut(&mut self) -> &mut $t {
                    self.0.get_mut()
                }
                pub fn into_inner(self) -> $t {
                    self.0.load(Ordering::SeqCst)
                }
            }

            impl Drop for $name {
                fn drop(&mut self) {
                    if sim::on() {
                        sim::forget_loc(self.addr());
                    }
                }
            }
        };
    }

    int_atomic!(AtomicUsize, AtomicUsize, usize);
    int_atomic!(AtomicU16, AtomicU16, u16);
    int_atomic!(AtomicU32, AtomicU32, u32);
    int_atomic!(AtomicU64, AtomicU64, u64);

    #[derive(Default)]
    pub struct AtomicBool(sa::AtomicBool);

    impl std::fmt::Debug for AtomicBool {
        fn fmt(&self, f: &mut std::fmt::Formatter<'_>) -> std::fmt::Result {
            write!(f, "{:?}", self.0.load(Ordering::Relaxed))
        }
    }

    impl AtomicBool {
        pub const fn new(v: bool) -> Self {
            AtomicBool(sa::AtomicBool::new(v))
        }
        #[inline]
        fn addr(&self) -> usize {
            self as *const _ as usize
        }
        pub fn load(&self, o: Ordering) -> bool {
            if !sim::on() {
                return self.0.load(o);
            }
            sim::sp(EV_LOAD, self.addr());
            let cur = self.0.load(Ordering::SeqCst);
            sim::mm_load(self.addr(), o, cur as u64) != 0
        }
        pub fn store(&self, v: bool, o: Ordering) {
            if !sim::on() {
                return self.0.store(v, o);
            }
            sim::sp(EV_STORE, self.addr());
            let before = self.0.load(Ordering::SeqCst);
            self.0.store(v, Ordering::SeqCst);
            sim::mm_store(self.addr(), o, before as u64, v as u64);
            sim::sp(sim::EV_POST, self.addr());
        }
        pub fn swap(&self, v: bool, o: Ordering) -> bool {
            if !sim::on() {
                return self.0.swap(v, o);
            }
            sim::sp(EV_RMW, self.addr());
            let old = self.0.swap(v, Ordering::SeqCst);
            sim::mm_rmw(self.addr(), o, old as u64, v as u64);
            sim::sp(sim::EV_POST, self.addr());
            old
        }
        fn cas(&self, cur: bool, new: bool, s: Ordering, f: Ordering, weak: bool) -> Result<bool, bool> {
            if !sim::on() {
                return if weak { self.0.compare_exchange_weak(cur, new, s, f) } else { self.0.compare_exchange(cur, new, s, f) };
            }
            sim::sp(EV_CAS_OK, self.addr());
            if weak && sim::cas_spurious() {
                let now = self.0.load(Ordering::SeqCst);
                sim::mm_cas_fail(self.addr(), f, now as u64);
                return Err(now);
            }
            match self.0.compare_exchange(cur, new, Ordering::SeqCst, Ordering::SeqCst) {
                Ok(old) => {
                    sim::mm_rmw(self.addr(), s, old as u64, new as u64);
                    sim::sp(sim::EV_POST, self.addr());
                    Ok(old)
                }
                Err(now) => {
                    sim::mm_cas_fail(self.addr(), f, now as u64);
                    Err(now)
                }
            }
        }
        pub fn compare_exchange(&self, cur: bool, new: bool, s: Ordering, f: Ordering) -> Result<bool, bool> {
            self.cas(cur, new, s, f, false)
        }
        pub fn compare_exchange_weak(&self, cur: bool, new: bool, s: Ordering, f: Ordering) -> Result<bool, bool> {
            self.cas(cur, new, s, f, true)
        }
        pub fn fetch_or(&self, v: bool, o: Ordering) -> bool {
            if !sim::on() {
                return self.0.fetch_or(v, o);
            }
            sim::sp(EV_RMW, self.addr());
            let old = self.0.fetch_or(v, Ordering::SeqCst);
            sim::mm_rmw(self.addr(), o, old as u64, (old | v) as u64);
            old
        }
        pub fn fetch_and(&self, v: bool, o: Ordering) -> bool {
            if !sim::on() {
                return self.0.fetch_and(v, o);
            }
            sim::sp(EV_RMW, self.addr());
            let old = self.0.fetch_and(v, Ordering::SeqCst);
            sim::mm_rmw(self.addr(), o, old as u64, (old & v) as u64);
            old
        }
        pub fn get_mut(&mut self) -> &mut bool {
            self.0.get_mut()
        }
    }

    impl Drop for AtomicBool {
        fn drop(&mut self) {
            if sim::on() {
                sim::forget_loc(self.addr());
            }
        }
    }

    pub struct AtomicPtr<T>(sa::AtomicPtr<T>);

    impl<T> Default for AtomicPtr<T> {
        fn default() -> Self {
            AtomicPtr(sa::AtomicPtr::new(std::ptr::null_mut()))
        }
    }

    impl<T> std::fmt::Debug for AtomicPtr<T> {
        fn fmt(&self, f: &mut std::fmt::Formatter<'_>) -> std::fmt::Result {
            write!(f, "{:?}", self.0.load(Ordering::Relaxed))
        }
    }

    impl<T> AtomicPtr<T> {
        pub const fn new(p: *mut T) -> Self {
            AtomicPtr(sa::AtomicPtr::new(p))
        }
        #[inline]
        fn addr(&self) -> usize {
            self as *const _ as usize
        }
        pub fn load(&self, o: Ordering) -> *mut T {
            if !sim::on() {
                return self.0.load(o);
            }
            sim::sp(EV_LOAD, self.addr());
            let cur = self.0.load(Ordering::SeqCst);
            sim::mm_load(self.addr(), o, cur as usize as u64) as usize as *mut T
        }
        pub fn store(&self, v: *mut T, o: Ordering) {
            if !sim::on() {
                return self.0.store(v, o);
            }
            sim::sp(EV_STORE, self.addr());
            let before = self.0.load(Ordering::SeqCst);
            self.0.store(v, Ordering::SeqCst);
            sim::mm_store(self.addr(), o, before as usize as u64, v as usize as u64);
            sim::sp(sim::EV_POST, self.addr());
        }
        pub fn swap(&self, v: *mut T, o: Ordering) -> *mut T {
            if !sim::on() {
                return self.0.swap(v, o);
            }
            sim::sp(EV_RMW, self.addr());
            let old = self.0.swap(v, Ordering::SeqCst);
            sim::mm_rmw(self.addr(), o, old as usize as u64, v as usize as u64);
            sim::note_ptr_swap(v as usize);
            sim::sp(sim::EV_POST, self.addr());
            old
        }
        pub fn compare_exchange(&self, cur: *mut T, new: *mut T, s: Ordering, f: Ordering) -> Result<*mut T, *mut T> {
            if !sim::on() {
                return self.0.compare_exchange(cur, new, s, f);
            }
            sim::sp(EV_CAS_OK, self.addr());
            match self.0.compare_exchange(cur, new, Ordering::SeqCst, Ordering::SeqCst) {
                Ok(old) => {
                    sim::mm_rmw(self.addr(), s, old as usize as u64, new as usize as u64);
                    Ok(old)
                }
                Err(now) => {
                    sim::mm_cas_fail(self.addr(), f, now as usize as u64);
                    Err(now)
                }
            }
        }
        pub fn get_mut(&mut self) -> &mut *mut T {
            self.0.get_mut()
        }
    }

    impl<T> Drop for AtomicPtr<T> {
        fn drop(&mut self) {
            if sim::on() {
                sim::forget_loc(self.addr());
            }
        }
    }
}

// ---------------------------------------------------------------------------------------------
// Arc: std's Arc behind a transparent wrapper whose reference-count operations are scheduling
// points (clone, drop, strong_count) and release/acquire edges of the memory model.  The unsized
// coercions and the `self: Arc<Self>` receivers the library uses need the unstable
// CoerceUnsized / DispatchFromDyn / Receiver traits (the simulator is built with
// RUSTC_BOOTSTRAP=1; nothing of this is compiled into the library proper).

pub struct Arc<T: ?Sized> {
    inner: std::sync::Arc<T>,
}

impl<T: ?Sized> Arc<T> {
    #[inline]
    fn loc(&self) -> usize {
        std::sync::Arc::as_ptr(&self.inner) as *const () as usize
    }
    pub fn strong_count(this: &Self) -> usize {
        if sim::on() {
            sim::sp(sim::EV_LOAD, this.loc());
        }
        std::sync::Arc::strong_count(&this.inner)
    }
    pub fn ptr_eq(this: &Self, other: &Self) -> bool {
        std::sync::Arc::ptr_eq(&this.inner, &other.inner)
    }
    pub fn as_ptr(this: &Self) -> *const T {
        std::sync::Arc::as_ptr(&this.inner)
    }
}

impl<T> Arc<T> {
    pub fn new(v: T) -> Arc<T> {
        Arc { inner: std::sync::Arc::new(v) }
    }
}

impl<T: ?Sized> Clone for Arc<T> {
    fn clone(&self) -> Arc<T> {
        if !sim::on() {
            return Arc { inner: std::sync::Arc::clone(&self.inner) };
        }
        let addr = self.loc();
        sim::sp(sim::EV_RMW, addr);
        let before = std::sync::Arc::strong_count(&self.inner) as u64;
        let c = std::sync::Arc::clone(&self.inner);
        sim::mm_rmw(addr, std::sync::atomic::Ordering::Relaxed, before, before + 1);
        Arc { inner: c }
    }
}

impl<T: ?Sized> Drop for Arc<T> {
    fn drop(&mut self) {
        // (the real decrement is the drop of `inner`, which follows this body with no scheduling
        // point in between)
        if !sim::on() {
            return;
        }
        let addr = self.loc();
        sim::sp(sim::EV_RMW, addr);
        let before = std::sync::Arc::strong_count(&self.inner) as u64;
        // release by every owner, acquire by the last one: modelled as AcqRel on the count
        sim::mm_rmw(addr, std::sync::atomic::Ordering::AcqRel, before, before - 1);
        if before == 1 {
            sim::forget_loc(addr);
        }
    }
}

impl<T: ?Sized> std::ops::Deref for Arc<T> {
    type Target = T;
    #[inline]
    fn deref(&self) -> &T {
        &self.inner
    }
}

impl<T: ?Sized + std::marker::Unsize<U>, U: ?Sized> std::ops::CoerceUnsized<Arc<U>> for Arc<T> {}
impl<T: ?Sized + std::marker::Unsize<U>, U: ?Sized> std::ops::DispatchFromDyn<Arc<U>> for Arc<T> {}

impl<T: ?Sized + std::fmt::Debug> std::fmt::Debug for Arc<T> {
    fn fmt(&self, f: &mut std::fmt::Formatter<'_>) -> std::fmt::Result {
        std::fmt::Debug::fmt(&**self, f)
    }
}

impl<T: Default> Default for Arc<T> {
    fn default() -> Arc<T> {
        Arc::new(T::default())
    }
}

impl<T> From<T> for Arc<T> {
    fn from(v: T) -> Arc<T> {
        Arc::new(v)
    }
}

/// `Weak` companion of the wrapper above (a change to the library may well reach for it).
pub struct Weak<T: ?Sized> {
    inner: std::sync::Weak<T>,
}

impl<T: ?Sized> Arc<T> {
    pub fn downgrade(this: &Self) -> Weak<T> {
        Weak { inner: std::sync::Arc::downgrade(&this.inner) }
    }
    pub fn weak_count(this: &Self) -> usize {
        std::sync::Arc::weak_count(&this.inner)
    }
    pub fn get_mut(this: &mut Self) -> Option<&mut T> {
        std::sync::Arc::get_mut(&mut this.inner)
    }
}

impl<T: ?Sized> Weak<T> {
    pub fn upgrade(&self) -> Option<Arc<T>> {
        if !sim::on() {
            return self.inner.upgrade().map(|a| Arc { inner: a });
        }
        let addr = self.inner.as_ptr() as *const () as usize;
        sim::sp(sim::EV_RMW, addr);
        let before = self.inner.strong_count() as u64;
        let r = self.inner.upgrade();
        if r.is_some() {
            sim::mm_rmw(addr, std::sync::atomic::Ordering::Acquire, before, before + 1);
        }
        r.map(|a| Arc { inner: a })
    }
    pub fn strong_count(&self) -> usize {
        self.inner.strong_count()
    }
}

impl<T: ?Sized> Clone for Weak<T> {
    fn clone(&self) -> Weak<T> {
        Weak { inner: self.inner.clone() }
    }
}

impl<T: ?Sized + std::marker::Unsize<U>, U: ?Sized> std::ops::CoerceUnsized<Weak<U>> for Weak<T> {}

impl<T: ?Sized> std::fmt::Debug for Weak<T> {
    fn fmt(&self, f: &mut std::fmt::Formatter<'_>) -> std::fmt::Result {
        write!(f, "(Weak)")
    }
}
