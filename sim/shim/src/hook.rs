//! Entry points called from the `#[cfg(sighook_verif)]` lines in /repo.

use crate::sim;

#[inline]
pub fn snap_alloc(p: usize) {
    if sim::on() {
        sim::ev_snap_alloc(p);
    }
}
#[inline]
pub fn snap_free(p: usize) {
    if sim::on() {
        sim::ev_snap_free(p);
    }
}
#[inline]
pub fn read_open(p: usize) {
    if sim::on() {
        sim::ev_read_open(p);
    }
}
#[inline]
pub fn read_close(p: usize) {
    if sim::on() {
        sim::ev_read_close(p);
    }
}
/// Right after the writer switched the generation in `write_barrier` (address of the generation
/// counter): readers that sample the generation from now on use the other slot.
#[inline]
pub fn gen_flip(gen_addr: usize) {
    if sim::on() {
        sim::ev_gen_flip(gen_addr);
    }
}
#[inline]
pub fn cell_access(p: usize, is_write: bool) {
    if sim::on() {
        sim::ev_cell_access(p, is_write);
    }
}

/// First line of `pipe::wake`: a scheduling point between "store" and "wake", the pipe as a
/// synchronising object, and the would-block probe (a `write` on a full blocking descriptor would
/// hang the handler forever; report it instead of hanging).
pub fn pre_wake(fd: i32, is_send: bool) {
    if !sim::on() {
        return;
    }
    sim::sp(sim::EV_WAKE, 0);
    sim::count(sim::C_WAKE_CALLS, 1);
    sim::note_wake_call();
    sim::ev_pipe_release();
    unsafe {
        // the descriptor must still be the action's: a wake-up on a number that is closed means
        // the write end was released while an action that uses it is still registered or running
        if libc::fcntl(fd, libc::F_GETFD) == -1 && *libc::__errno_location() == libc::EBADF {
            let _g = sim::ShimGuard::new();
            let msg = format!("a signal delivery writes its wake-up to descriptor {} which is closed: the self-pipe's write end was released before the action using it was removed (the number may be reused by an unrelated descriptor at any moment)", fd);
            sim::report("C13", "wake-on-closed-descriptor", &msg, false);
            sim::report("C01", "delivery-uses-released-descriptor", &msg, false);
            sim::report("C12", "delivery-uses-released-descriptor", &msg, false);
        }
        let mut p = libc::pollfd { fd, events: libc::POLLOUT, revents: 0 };
        let r = libc::poll(&mut p, 1, 0);
        let writable = r > 0 && (p.revents & libc::POLLOUT) != 0;
        if !writable {
            sim::count(sim::C_WAKE_EAGAIN, 1);
            let fl = libc::fcntl(fd, libc::F_GETFL, 0);
            if !is_send && fl != -1 && (fl & libc::O_NONBLOCK) == 0 && r >= 0 && (p.revents & (libc::POLLERR | libc::POLLNVAL | libc::POLLHUP)) == 0 {
                let _g = sim::ShimGuard::new();
                let msg = format!("self-pipe wake uses write(2) on descriptor {} which is full and not O_NONBLOCK: the signal handler would block until somebody reads (forever if the reader is the interrupted thread)", fd);
                if sim::pipe_consumer() == Some(sim::cur()) {
                    // the only thread that drains the pipe is the one stuck in this handler
                    sim::report("C09", "consumer-stuck-in-handler", &msg, false);
                }
                sim::report("C03", "handler-would-block", &msg, false);
                sim::report("C13", "wake-would-block", &msg, true);
            }
        }
    }
}

/// Before the drain loop in `SignalDelivery::flush`.
pub fn pre_drain(_fd: i32) {
    if !sim::on() {
        return;
    }
    sim::sp(sim::EV_DRAIN, 0);
    sim::ev_pipe_acquire();
}

/// Before the only blocking call of the library (`read` in `SignalsInfo::has_signals`): the
/// simulated thread is parked by the simulator; the real `read` is issued only when it cannot
/// block.
pub fn block_until_readable(fd: i32) {
    if !sim::on() {
        return;
    }
    sim::sp(sim::EV_BLOCK, 0);
    sim::block_fd(fd);
    sim::ev_pipe_acquire();
}

/// A system call the library makes inside a delivery or a mutator (interposed `sigprocmask`,
/// `raise`): a scheduling point, hence also a point where another signal may arrive.
pub fn syscall_point() {
    if !sim::on() {
        return;
    }
    sim::sp(sim::EV_SYSCALL, 0);
    // the process may be about to die here (re-raised signal): keep the counters current
    sim::flush();
}
