//! Local xoshiro256** so that no crate version can ever change a schedule.

#[derive(Clone, Debug)]
pub struct Rng {
    s: [u64; 4],
}

fn splitmix(x: &mut u64) -> u64 {
    *x = x.wrapping_add(0x9E3779B97F4A7C15);
    let mut z = *x;
    z = (z ^ (z >> 30)).wrapping_mul(0xBF58476D1CE4E5B9);
    z = (z ^ (z >> 27)).wrapping_mul(0x94D049BB133111EB);
    z ^ (z >> 31)
}

/// Mix several integers into one seed.
pub fn mix(parts: &[u64]) -> u64 {
    let mut h: u64 = 0x243F6A8885A308D3;
    for p in parts {
        let mut x = h ^ p.wrapping_mul(0x9E3779B97F4A7C15);
        h = splitmix(&mut x);
    }
    h
}

impl Rng {
    pub fn new(seed: u64) -> Rng {
        let mut x = seed;
        let s = [splitmix(&mut x), splitmix(&mut x), splitmix(&mut x), splitmix(&mut x)];
        Rng { s }
    }
    pub fn next_u64(&mut self) -> u64 {
        let r = self.s[1].wrapping_mul(5).rotate_left(7).wrapping_mul(9);
        let t = self.s[1] << 17;
        self.s[2] ^= self.s[0];
        self.s[3] ^= self.s[1];
        self.s[1] ^= self.s[2];
        self.s[0] ^= self.s[3];
        self.s[2] ^= t;
        self.s[3] = self.s[3].rotate_left(45);
        r
    }
    /// Uniform in 0..n (n ≥ 1).
    pub fn below(&mut self, n: u32) -> u32 {
        if n <= 1 {
            return 0;
        }
        ((self.next_u64() >> 32).wrapping_mul(n as u64) >> 32) as u32
    }
}
