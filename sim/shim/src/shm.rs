//! The block of MAP_SHARED memory through which one forked run ("the simulated process") reports to
//! the worker that forked it.  Everything is written through as the run proceeds, so the trace
//! survives `_exit`, `abort()` and SIGSEGV of the child.

use std::ptr;
use std::sync::atomic::{AtomicPtr, Ordering};

pub const MAX_W: usize = 4096;
pub const MAX_S: usize = 98304;
pub const MAX_EV: usize = 6144;
pub const N_COUNTERS: usize = 160;
pub const NOTE_BYTES: usize = 49152;

pub const V_NONE: u32 = 0;
pub const V_OK: u32 = 1;
pub const V_VIOLATION: u32 = 2;
pub const V_HARNESS: u32 = 3;
/// A violation of a property other than the one being checked ended the run.
pub const V_FOREIGN: u32 = 4;

#[repr(C)]
#[derive(Clone, Copy, Default)]
pub struct Choice {
    pub kind: u32,
    pub n: u32,
    pub v: u32,
}

#[repr(C)]
#[derive(Clone, Copy, Default)]
pub struct Event {
    pub step: u32,
    pub tid: u8,
    pub depth: u8,
    pub kind: u16,
    pub a: u64,
    pub b: u64,
}

#[repr(C)]
pub struct Shm {
    pub verdict: u32,
    pub prop: [u8; 8],
    pub oracle: [u8; 64],
    pub msg: [u8; 2048],
    pub panic_msg: [u8; 256],
    pub panic_in_handler: u32,
    pub steps: u64,
    pub switches: u64,
    pub nthreads: u32,
    pub nontrivial: u32,
    pub sig_hash: u64,
    pub expect_exit: i32,
    pub expect_set: u32,
    pub progress: u32,
    pub in_handler_now: u32,
    pub crash_prop: [u8; 8],
    pub hang_prop: [u8; 8],
    pub abort_prop: [u8; 8],
    pub exit_prop: [u8; 8],
    pub atexit_ran: u32,
    /// set by the child's SIGSEGV/SIGBUS probe: faulting address and whether a delivery was running
    pub fault_seen: u32,
    pub fault_in_handler: u32,
    pub fault_addr: u64,
    pub fault_pc: u64,
    pub counters: [u64; N_COUNTERS],
    pub wlen: u32,
    pub slen: u32,
    pub evtotal: u32,
    pub note_len: u32,
    pub w: [Choice; MAX_W],
    pub s: [Choice; MAX_S],
    pub ev: [Event; MAX_EV],
    pub note: [u8; NOTE_BYTES],
}

static SHM: AtomicPtr<Shm> = AtomicPtr::new(ptr::null_mut());

/// Map a fresh shared block (called by the worker, before forking).
pub fn create() -> *mut Shm {
    unsafe {
        let p = libc::mmap(
            ptr::null_mut(),
            std::mem::size_of::<Shm>(),
            libc::PROT_READ | libc::PROT_WRITE,
            libc::MAP_SHARED | libc::MAP_ANONYMOUS,
            -1,
            0,
        );
        assert!(p != libc::MAP_FAILED, "mmap of the shared block failed");
        let p = p as *mut Shm;
        SHM.store(p, Ordering::SeqCst);
        p
    }
}

pub fn get() -> &'static mut Shm {
    let p = SHM.load(Ordering::Relaxed);
    assert!(!p.is_null(), "shm not created");
    unsafe { &mut *p }
}

pub fn is_set() -> bool {
    !SHM.load(Ordering::Relaxed).is_null()
}

/// Reset the header before a run (the big arrays are only valid up to their lengths).
pub fn reset() {
    let s = get();
    s.verdict = V_NONE;
    s.prop = [0; 8];
    s.oracle = [0; 64];
    s.msg[0] = 0;
    s.panic_msg[0] = 0;
    s.panic_in_handler = 0;
    s.steps = 0;
    s.switches = 0;
    s.nthreads = 0;
    s.nontrivial = 0;
    s.sig_hash = 0;
    s.expect_exit = 0;
    s.expect_set = 0;
    s.progress = 0;
    s.in_handler_now = 0;
    s.crash_prop = [0; 8];
    s.hang_prop = [0; 8];
    s.abort_prop = [0; 8];
    s.exit_prop = [0; 8];
    s.atexit_ran = 0;
    s.fault_seen = 0;
    s.fault_in_handler = 0;
    s.fault_addr = 0;
    s.fault_pc = 0;
    s.counters = [0; N_COUNTERS];
    s.wlen = 0;
    s.slen = 0;
    s.evtotal = 0;
    s.note_len = 0;
}

pub fn put_str(dst: &mut [u8], s: &str) {
    let n = s.len().min(dst.len() - 1);
    dst[..n].copy_from_slice(&s.as_bytes()[..n]);
    dst[n] = 0;
}

pub fn get_str(src: &[u8]) -> String {
    let n = src.iter().position(|b| *b == 0).unwrap_or(src.len());
    String::from_utf8_lossy(&src[..n]).into_owned()
}

impl Shm {
    pub fn events(&self) -> Vec<Event> {
        let total = self.evtotal as usize;
        let n = total.min(MAX_EV);
        let mut v = Vec::with_capacity(n);
        for i in (total - n)..total {
            v.push(self.ev[i % MAX_EV]);
        }
        v
    }
    pub fn note_str(&self) -> String {
        String::from_utf8_lossy(&self.note[..self.note_len as usize]).into_owned()
    }
}
