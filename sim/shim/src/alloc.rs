//! Global allocator wrapper used by the engine binary.
//!
//! * no-alloc-in-handler oracle (C03): any allocator entry while the calling thread is inside a
//!   simulated signal delivery (and not inside simulator code) is reported;
//! * freed blocks are poisoned with 0xDD and, during a simulation, quarantined (never reused), so a
//!   stray use of freed memory faults or yields recognisably wrong data instead of silently
//!   working.

use std::alloc::{GlobalAlloc, Layout, System};
use std::sync::atomic::{AtomicBool, AtomicU64, Ordering};

use crate::sim;

pub struct SimAlloc;

pub static QUARANTINE: AtomicBool = AtomicBool::new(false);
pub static HANDLER_ALLOCS: AtomicU64 = AtomicU64::new(0);
static QUARANTINED_BYTES: AtomicU64 = AtomicU64::new(0);
const QUARANTINE_CAP: u64 = 256 << 20;

#[cold]
fn in_handler_alloc(what: &str, size: usize) {
    let _g = sim::ShimGuard::new();
    HANDLER_ALLOCS.fetch_add(1, Ordering::Relaxed);
    sim::report(
        "C03",
        "alloc-in-handler",
        &format!("{} of {} bytes inside a signal delivery (step {})", what, size, sim::steps()),
        false,
    );
}

#[inline]
fn check(what: &str, size: usize) {
    if sim::handler_depth() > 0 && !sim::in_shim() && sim::active() {
        in_handler_alloc(what, size);
    }
}

unsafe impl GlobalAlloc for SimAlloc {
    unsafe fn alloc(&self, l: Layout) -> *mut u8 {
        check("allocation", l.size());
        System.alloc(l)
    }
    unsafe fn alloc_zeroed(&self, l: Layout) -> *mut u8 {
        check("allocation", l.size());
        System.alloc_zeroed(l)
    }
    unsafe fn dealloc(&self, p: *mut u8, l: Layout) {
        check("deallocation", l.size());
        if QUARANTINE.load(Ordering::Relaxed) {
            std::ptr::write_bytes(p, 0xDD, l.size());
            if QUARANTINED_BYTES.fetch_add(l.size() as u64, Ordering::Relaxed) < QUARANTINE_CAP {
                return;
            }
        }
        System.dealloc(p, l)
    }
    unsafe fn realloc(&self, p: *mut u8, l: Layout, new_size: usize) -> *mut u8 {
        check("reallocation", new_size);
        if QUARANTINE.load(Ordering::Relaxed) {
            let nl = Layout::from_size_align_unchecked(new_size, l.align());
            let np = System.alloc(nl);
            if !np.is_null() {
                std::ptr::copy_nonoverlapping(p, np, l.size().min(new_size));
                self.dealloc(p, l);
            }
            return np;
        }
        System.realloc(p, l, new_size)
    }
}
