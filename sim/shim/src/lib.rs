//! sighook-shim: the deterministic simulator that signal-hook is run under when built with
//! `--cfg sighook_verif`.
//!
//! * `sync` / `thread`: drop-in replacements for the `std::sync` / `std::thread` items the library
//!   uses.  Outside an active simulation they fall through to std.
//! * `hook`: the event entry points the guarded lines in /repo call.
//! * `sim`: the scheduler (one runnable thread at a time, baton hand-off), the view-based memory
//!   model, the chooser (PRNG or replay), fault injection, verdicts.
//! * `shm`: the shared-memory block through which a forked run reports to its parent.
//! * `alloc`: the global allocator wrapper (no-alloc-in-handler oracle, poison + quarantine).

#![feature(coerce_unsized, unsize, dispatch_from_dyn)] // (+ arbitrary_self_types from the build's -Zcrate-attr)

pub mod alloc;
pub mod hook;
pub mod rng;
pub mod shm;
pub mod sim;
pub mod sync;
pub mod thread;
