fn main() {
    println!("cargo:rerun-if-changed=/repo/src/low_level/extract.c");
    cc::Build::new()
        .file("/repo/src/low_level/extract.c")
        .compile("extract");
}
