fn main() {
    // export the executable's symbols so that std's dlsym-based lookup of getrandom finds the
    // deterministic one defined in main.rs
    println!("cargo:rustc-link-arg-bins=-rdynamic");
}
