//! regsim: the registry (half-lock + dispatcher) under concurrent mutators and deliveries.
//! Serves C01, C02, C03 (registry part), C04, C18.

use std::collections::HashSet;
use std::os::unix::io::{AsRawFd, RawFd};
use std::os::unix::net::{UnixDatagram, UnixStream};
use std::panic::{catch_unwind, AssertUnwindSafe};
use std::sync::atomic::{AtomicBool, AtomicUsize};
use std::sync::Arc;

use sighook_shim::sim::{self, Config, InjectCtx, Policy, ShimGuard};
use signal_hook::iterator::backend::SignalDelivery;
use signal_hook::iterator::exfiltrator::{SignalOnly, WithOrigin, WithRawSiginfo};
use signal_hook::SigId;

use crate::driver::RunSpec;
use crate::lin;
use crate::props::*;
use crate::util::*;

#[derive(Clone, Copy, PartialEq, Debug)]
enum PrevKind {
    Default,
    Ignore,
    Plain,
    Info,
}

#[derive(Clone, Copy, PartialEq, Debug)]
enum ActKind {
    Canary { sigaction: bool, panic_drop: bool },
    FlagBool,
    FlagUsize,
    PipeStream { full: bool },
    PipeDgram { full: bool },
    PipePipe { full: bool },
    CondShutdownFalse,
    CondDefaultFalse,
}

#[derive(Clone, Debug)]
enum MOp {
    Register { sig: i32, kind: ActKind, gen: usize },
    /// unregister the id obtained by the gen-th generated registration (any thread)
    Unregister { gen: usize },
    UnregisterSignal { sig: i32 },
    RegisterForbidden,
    /// SIGKILL / SIGSTOP through an unchecked entry point: the OS refuses, the call returns Err
    RegisterUncheckedRefused { stop: bool },
    IterNew { sigs: Vec<i32>, exf: u8 },
    IterAdd { sig: i32 },
    /// add_signal of a forbidden signal through the instance's handle: documented, caught panic
    IterAddForbidden,
    IterDrop,
}

struct Action {
    sig: i32,
    gen: usize,
    sigid: Option<SigId>,
    reg_ret: Option<u64>,
    removed_ret: Option<u64>,
    ambiguous: bool,
    in_progress: u32,
    dropped: u32,
    dropped_by: usize,
    dropped_depth: u32,
    tagged: bool,
    reg_failed: bool,
}

struct Delivery {
    sig: i32,
    tid: usize,
    nested: bool,
    begin: u64,
    end: Option<u64>,
    tags: Vec<usize>,
    prev_calls: Vec<(PrevKind, i32, usize, usize, usize, u8)>,
    info_ptr: usize,
    ctx_ptr: usize,
    lib_handler: bool,
    first_reg_returned_at_begin: bool,
    inside_op: bool,
}

struct World {
    seq: u64,
    sigs: Vec<i32>,
    prev: Vec<PrevKind>,
    /// extra sa_flags the foreign installer used (the kernel reports them back verbatim, also for
    /// SIG_IGN / SIG_DFL where they mean nothing)
    prev_flags: Vec<i32>,
    actions: Vec<Action>,
    gen_to_action: Vec<Option<usize>>,
    deliveries: Vec<Delivery>,
    dstack: Vec<Vec<usize>>,
    lin_ops: Vec<lin::Op>,
    ids_seen: HashSet<SigId>,
    removers: Vec<u32>,
    /// removal calls: (thread, signal, tag if unregister(id), invocation, return)
    removal_calls: Vec<(usize, i32, Option<usize>, u64, Option<u64>)>,
    in_mut_op: Vec<bool>,
    stop_deliveries: bool,
    keep_fds: Vec<RawFd>,
    inst_drops: Vec<(u32, u32, usize)>,
    iter_sigs: HashSet<i32>,
    /// a user Drop panicked inside store(): std's HashMap leaks the rest of the old snapshot, so
    /// release accounting is meaningless from then on (user misbehaviour, not the library's)
    leaky: bool,
    successful_mutations: Vec<(i32, u64, u64)>,
    drain: DrainState,
    nactions_hint: u64,
    /// per signal: which foreign handler (1 or 2) is the latest installed, and when
    foreign_now: Vec<(u8, u64)>,
    stall_tag: Option<usize>,
    stalled_once: bool,
    stalled_thread: Option<usize>,
}

#[derive(PartialEq, Clone, Copy, Debug)]
enum DrainState {
    Off,
    Armed(u64),
    Draining,
    Solo { t: usize, own_at_freeze: u64 },
    Done,
}

static mut WORLD: *mut World = std::ptr::null_mut();
fn w() -> &'static mut World {
    unsafe { &mut *WORLD }
}
fn next_seq() -> u64 {
    let x = w();
    x.seq += 1;
    x.seq
}

struct Canary {
    tag: usize,
    panic_drop: bool,
}

impl Drop for Canary {
    fn drop(&mut self) {
        {
            let _g = ShimGuard::new();
            let me = sim::tid();
            let a = &mut w().actions[self.tag];
            a.dropped += 1;
            a.dropped_by = me;
            a.dropped_depth = sim::handler_depth();
            sim::log(UE_CANARY_DROP, self.tag as u64, a.dropped as u64);
            if a.dropped > 1 {
                sim::violation("C01", "captured-state-dropped-twice", &format!("captured state of action #{} dropped {} times", self.tag, a.dropped));
            }
            if a.dropped_depth > 0 {
                sim::report("C01", "released-inside-handler", &format!("captured state of action #{} was released inside a signal handler on T{}", self.tag, me), false);
                sim::report("C03", "free-in-handler", &format!("captured state of action #{} was released inside a signal handler on T{}", self.tag, me), false);
            }
        }
        if self.panic_drop && !std::thread::panicking() {
            panic!("canary drop panics on purpose");
        }
    }
}

fn action_body(tag: usize) {
    {
        let _g = ShimGuard::new();
        let me = sim::tid();
        let x = w();
        let seq = {
            x.seq += 1;
            x.seq
        };
        sim::log(UE_ACTION_BEGIN, tag as u64, seq);
        let a = &mut x.actions[tag];
        if let Some(r) = a.removed_ret {
            sim::report(
                "C02",
                "action-ran-after-removal-returned",
                &format!("action #{} (signal {}) began running on T{} at event {} although its removal had returned at event {}", tag, sig_name(a.sig), me, seq, r),
                false,
            );
            sim::violation(
                "C01",
                "action-ran-after-removal",
                &format!("action #{} (signal {}) began running on T{} at event {} although its removal had returned at event {}", tag, sig_name(a.sig), me, seq, r),
            );
        }
        if a.dropped > 0 {
            sim::violation("C01", "action-ran-after-release", &format!("action #{} ran after its captured state had been released", tag));
        }
        a.in_progress += 1;
        let asig = a.sig;
        match x.dstack[me].last() {
            Some(d) => {
                let d = &mut x.deliveries[*d];
                if d.sig != asig {
                    sim::violation("C02", "action-of-other-signal", &format!("a delivery of {} ran action #{} which was registered for {}", sig_name(d.sig), tag, sig_name(asig)));
                }
                d.tags.push(tag);
            }
            None => sim::harness_error("action ran outside any delivery"),
        }
    }
    sim::sp_user();
    if w().stall_tag == Some(tag) && !w().stalled_once {
        // long-stall fault: this delivery is descheduled for a very long time inside the action
        w().stalled_once = true;
        w().stalled_thread = Some(sim::tid());
        sim::freeze(sim::tid());
        sim::sp_user();
    }
    {
        let _g = ShimGuard::new();
        let x = w();
        x.seq += 1;
        sim::log(UE_ACTION_END, tag as u64, x.seq);
        x.actions[tag].in_progress -= 1;
    }
}

extern "C" fn foreign_plain(sig: i32) {
    prev_called(PrevKind::Plain, sig, 0, 0, 1);
    foreign_body();
}
extern "C" fn foreign_info(sig: i32, info: *mut libc::siginfo_t, ctx: *mut libc::c_void) {
    prev_called(PrevKind::Info, sig, info as usize, ctx as usize, 1);
    foreign_body();
}
// a second foreign handler, installed by "somebody else" while the library's first registration of
// that signal may be in progress
extern "C" fn foreign_plain2(sig: i32) {
    prev_called(PrevKind::Plain, sig, 0, 0, 2);
    foreign_body();
}
extern "C" fn foreign_info2(sig: i32, info: *mut libc::siginfo_t, ctx: *mut libc::c_void) {
    prev_called(PrevKind::Info, sig, info as usize, ctx as usize, 2);
    foreign_body();
}
/// The body of somebody else's handler is ordinary code: other threads run meanwhile and another
/// signal may interrupt it (the library installs its handler with an empty mask), so it contains a
/// scheduling point like the harness-side actions do.
fn foreign_body() {
    sim::sp_user();
}
fn prev_called(kind: PrevKind, sig: i32, info: usize, ctx: usize, which: u8) {
    let _g = ShimGuard::new();
    let me = sim::tid();
    let x = w();
    sim::log(UE_PREV_CALLED, sig as u64, info as u64 & 0xffff);
    match x.dstack[me].last() {
        Some(d) => {
            let d = &mut x.deliveries[*d];
            let nt = d.tags.len();
            d.prev_calls.push((kind, sig, info, ctx, nt, which));
        }
        None => sim::harness_error("foreign handler ran outside any delivery"),
    }
}

/// One delivery of `sig` on the calling thread, with all per-delivery oracles.
fn do_delivery(sig: i32, nested: bool) {
    let mut info = make_info(sig, 0);
    let ctx_dummy = [0u64; 4];
    let did;
    let own0 = sim::own_steps();
    {
        let _g = ShimGuard::new();
        let me = sim::tid();
        let x = w();
        x.seq += 1;
        did = x.deliveries.len();
        info = make_info(sig, did as u64 + 1);
        let first_ret = x.actions.iter().any(|a| a.sig == sig && a.reg_ret.is_some());
        let inside = x.in_mut_op.iter().any(|b| *b);
        if inside {
            sim::count(E_DELIVERY_INSIDE_OP, 1);
        }
        if nested && sim::thread_in_store(me) {
            sim::count(E_NESTED_IN_STORE, 1);
        }
        x.deliveries.push(Delivery {
            sig,
            tid: me,
            nested,
            begin: x.seq,
            end: None,
            tags: Vec::with_capacity(16),
            prev_calls: Vec::with_capacity(4),
            info_ptr: &info as *const _ as usize,
            ctx_ptr: &ctx_dummy as *const _ as usize,
            lib_handler: false,
            first_reg_returned_at_begin: first_ret,
            inside_op: inside,
        });
        x.dstack[me].push(did);
        sim::log(UE_DELIVERY_BEGIN, did as u64, sig as u64);
    }
    let disp = sim::deliver(sig, &mut info as *mut RawInfo as *mut libc::siginfo_t, &ctx_dummy as *const _ as *mut libc::c_void);
    {
        let _g = ShimGuard::new();
        let me = sim::tid();
        let x = w();
        x.seq += 1;
        let seq = x.seq;
        x.dstack[me].pop();
        let sidx = x.sigs.iter().position(|s| *s == sig).unwrap();
        let pk = x.prev[sidx];
        let d = &mut x.deliveries[did];
        d.end = Some(seq);
        sim::log(UE_DELIVERY_END, did as u64, d.tags.len() as u64);
        let foreign_addrs = match pk {
            PrevKind::Plain => [foreign_plain as usize, foreign_plain2 as usize],
            PrevKind::Info => [foreign_info as usize, foreign_info2 as usize],
            _ => [0, 0],
        };
        if let sim::Disposition::Handler(h) = disp {
            d.lib_handler = !foreign_addrs.contains(&h);
        }
        let (expected_which, installed_at) = x.foreign_now[sidx];
        // C04: previous handler chained exactly once, first, same arguments
        let desc = format!(
            "delivery #{} of {} on T{}{} (dispatched to {}), previous disposition {:?}",
            did,
            sig_name(sig),
            me,
            if nested { " nested" } else { "" },
            if d.lib_handler { "the library's handler" } else { "the kernel-reported disposition" },
            pk
        );
        match pk {
            PrevKind::Plain | PrevKind::Info => {
                if d.prev_calls.len() != 1 {
                    sim::report("C04", "prev-handler-call-count", &format!("{}: previous handler was called {} times (events {}..{}, first registration returned before begin: {})", desc, d.prev_calls.len(), d.begin, seq, d.first_reg_returned_at_begin), false);
                } else {
                    let (k, s, i, c, nt, which) = d.prev_calls[0];
                    // which of the two foreign handlers: the one in place when the library took
                    // the signal over.  Deliveries that began while that first registration was
                    // still running may legitimately see the older one (the documented race).
                    if d.lib_handler && d.first_reg_returned_at_begin && which != expected_which {
                        sim::report(
                            "C04",
                            "stale-previous-handler",
                            &format!("{}: chained foreign handler #{} although handler #{} was the one in place (installed at event {}) when the library took the signal over; the first registration had returned before this delivery began", desc, which, expected_which, installed_at),
                            false,
                        );
                    }
                    if k != pk || s != sig {
                        sim::report("C04", "prev-handler-wrong-convention", &format!("{}: called as {:?} with signal {}", desc, k, s), false);
                    }
                    if pk == PrevKind::Info && (i != d.info_ptr || c != d.ctx_ptr) {
                        sim::report("C04", "prev-handler-wrong-arguments", &format!("{}: info/context pointers differ from the delivery's ({:#x},{:#x}) vs ({:#x},{:#x})", desc, i, c, d.info_ptr, d.ctx_ptr), false);
                    }
                    if nt != 0 {
                        sim::report("C04", "prev-handler-after-actions", &format!("{}: previous handler ran after {} action(s)", desc, nt), false);
                    }
                    if d.lib_handler {
                        sim::count(E_PREV_CHAINED, 1);
                        if !d.first_reg_returned_at_begin {
                            sim::count(E_RACE_FALLBACK, 1);
                            if sim::checking("C04") {
                                sim::mark_nontrivial();
                            }
                        }
                    }
                }
            }
            _ => {
                if !d.prev_calls.is_empty() {
                    sim::report("C04", "prev-handler-spurious", &format!("{}: a foreign handler was called although none was installed", desc), false);
                }
            }
        }
        if d.lib_handler && d.tags.is_empty() && !d.first_reg_returned_at_begin {
            sim::count(E_LIB_HANDLER_NO_SLOT, 1);
        }
        // C03: bounded own steps
        let own = sim::own_steps() - own0;
        let bound = 24 + 16 * (d.tags.len() as u64 + x.nactions_hint);
        if d.lib_handler && own > bound {
            sim::report("C03", "delivery-step-bound", &format!("{} took {} own steps (bound {})", desc, own, bound), false);
        }
        // C02 history
        x.lin_ops.push(lin::Op { kind: lin::OpKind::Delivery { sig, tags: d.tags.clone() }, inv: d.begin, ret: seq, desc: format!("deliver#{}({})->{:?}", did, sig_name(sig), d.tags) });
    }
}

fn gen_scenario(spec: &RunSpec) -> (Vec<Vec<MOp>>, Vec<Vec<i32>>, Config) {
    let prop = spec.prop.id;
    let nsig = 1 + sim::work(3) as usize;
    let mut pool: Vec<i32> = SIGS.to_vec();
    let mut sigs = Vec::new();
    for _ in 0..nsig {
        let i = sim::work(pool.len() as u32) as usize;
        sigs.push(pool.remove(i));
    }
    let mut prev = Vec::new();
    for _ in 0..nsig {
        let pk = if prop == "C04" { [PrevKind::Info, PrevKind::Plain, PrevKind::Info, PrevKind::Plain, PrevKind::Default, PrevKind::Ignore][sim::work(6) as usize] } else { [PrevKind::Default, PrevKind::Ignore, PrevKind::Plain, PrevKind::Info][sim::work(4) as usize] };
        prev.push(pk);
    }
    let prev_flags: Vec<i32> = (0..nsig).map(|_| [0, 0, libc::SA_SIGINFO, libc::SA_RESTART, libc::SA_SIGINFO | libc::SA_NODEFER, libc::SA_NODEFER][sim::work(6) as usize]).collect();
    let nmut = if prop == "C18" { 2 + sim::work(2) as usize } else { 1 + sim::work(3) as usize };
    let ndel = if prop == "C04" || prop == "C03" { 1 + sim::work(2) as usize } else { sim::work(3) as usize };
    let ndel = ndel.min(5 - nmut.min(4));
    let mut muts: Vec<Vec<MOp>> = vec![Vec::new(); nmut];
    let mut gen = 0usize;
    let mut gen_sigs: Vec<i32> = Vec::new();
    let deep = spec.tier == Tier::Thorough;
    let total_ops = 2 + sim::work(if deep { 14 } else { 9 }) as usize;
    let builtin = prop == "C03" || sim::work(4) == 0;
    let mut one_panic_drop = prop == "C18" && sim::work(3) == 0;
    let mut have_iter = vec![false; nmut];
    for k in 0..total_ops {
        let t = if k < nmut { k } else { sim::work(nmut as u32) as usize };
        if muts[t].len() >= if deep { 7 } else { 5 } {
            continue;
        }
        // op mix: register heavy at first, then removals
        let r = sim::work(100);
        // iterator instances created / extended / dropped while deliveries run: more of them where
        // the property is about what a delivery may do or about dropping the owner
        let iter_heavy = (prop == "C03" || prop == "C01") && sim::work(3) == 0;
        let r = if iter_heavy && gen > 0 && r < 30 { 93 } else { r };
        let op = if gen == 0 || r < 42 {
            let sig = sigs[sim::work(nsig as u32) as usize];
            let kind = if builtin && sim::work(2) == 0 {
                match sim::work(9) {
                    0 => ActKind::FlagBool,
                    1 => ActKind::FlagUsize,
                    2 => ActKind::PipeStream { full: false },
                    3 => ActKind::PipeStream { full: true },
                    4 => ActKind::PipeDgram { full: sim::work(2) == 0 },
                    5 => ActKind::PipePipe { full: sim::work(2) == 0 },
                    6 => ActKind::CondShutdownFalse,
                    7 => ActKind::CondDefaultFalse,
                    _ => ActKind::FlagBool,
                }
            } else {
                let pd = one_panic_drop && sim::work(2) == 0;
                if pd {
                    one_panic_drop = false;
                }
                ActKind::Canary { sigaction: sim::work(2) == 0, panic_drop: pd }
            };
            gen_sigs.push(sig);
            gen += 1;
            MOp::Register { sig, kind, gen: gen - 1 }
        } else if r < 80 {
            MOp::Unregister { gen: sim::work(gen as u32) as usize }
        } else if r < 88 {
            MOp::UnregisterSignal { sig: sigs[sim::work(nsig as u32) as usize] }
        } else if r < 90 && (prop == "C18" || prop == "C14") {
            MOp::RegisterForbidden
        } else if r < 92 && (prop == "C18" || prop == "C14") {
            MOp::RegisterUncheckedRefused { stop: sim::work(2) == 0 }
        } else if r < 97 && !have_iter[t] && (prop == "C01" || prop == "C18" || prop == "C03") {
            have_iter[t] = true;
            let n = 1 + sim::work(2) as usize;
            let ss: Vec<i32> = (0..n).map(|_| sigs[sim::work(nsig as u32) as usize]).collect();
            MOp::IterNew { sigs: ss, exf: sim::work(3) as u8 }
        } else if have_iter[t] {
            if prop == "C18" && sim::work(3) == 0 {
                MOp::IterAddForbidden
            } else if sim::work(2) == 0 {
                MOp::IterAdd { sig: sigs[sim::work(nsig as u32) as usize] }
            } else {
                have_iter[t] = false;
                MOp::IterDrop
            }
        } else {
            MOp::Unregister { gen: sim::work(gen as u32) as usize }
        };
        muts[t].push(op);
    }
    let mut dels: Vec<Vec<i32>> = Vec::new();
    for _ in 0..ndel {
        let n = 1 + sim::work(if deep { 6 } else { 4 }) as usize;
        dels.push((0..n).map(|_| sigs[sim::work(nsig as u32) as usize]).collect());
    }
    // knobs (swarm)
    let policy = match sim::work(8) {
        0 | 1 => Policy::Uniform,
        2 => Policy::Sticky(5),
        3 => Policy::Sticky(20),
        4 => Policy::Sticky(50),
        5 => Policy::Pct(0),
        6 => Policy::Pct(1),
        _ => Policy::Pct(2),
    };
    let wm = sim::work(if spec.tier == Tier::Thorough { 3 } else { 6 }) == 0;
    let inj = [(0u32, 1u32), (1, 20), (1, 8), (1, 4)][sim::work(4) as usize];
    let cfg = Config {
        prop: prop.to_string(),
        policy,
        silent: sim::work(4) != 0,
        wm,
        inject_num: inj.0,
        inject_den: inj.1,
        inject_budget: if inj.0 == 0 { 0 } else { 1 + sim::work(if deep { 6 } else { 4 }) },
        max_nest: 2,
        cas_spurious_pct: 0,
        step_budget: 40_000,
        pct_horizon: if deep { 250 } else { 150 },
    };
    let x = w();
    x.foreign_now = vec![(1, 0); sigs.len()];
    x.sigs = sigs;
    x.prev = prev;
    x.prev_flags = prev_flags;
    x.gen_to_action = vec![None; gen];
    (muts, dels, cfg)
}

fn describe(muts: &[Vec<MOp>], dels: &[Vec<i32>], cfg: &Config) -> String {
    let x = w();
    let mut s = format!("signals {:?} prev {:?}; ", x.sigs.iter().map(|s| sig_name(*s)).collect::<Vec<_>>(), x.prev);
    for (i, m) in muts.iter().enumerate() {
        s.push_str(&format!("mutator{}: {:?}; ", i, m));
    }
    for (i, d) in dels.iter().enumerate() {
        s.push_str(&format!("deliverer{}: {:?}; ", i, d.iter().map(|s| sig_name(*s)).collect::<Vec<_>>()));
    }
    s.push_str(&format!("policy {:?} silent {} wm {} inject {}/{} budget {}", cfg.policy, cfg.silent, cfg.wm, cfg.inject_num, cfg.inject_den, cfg.inject_budget));
    s
}

struct CanaryWrite {
    fd: RawFd,
    inst: usize,
}
impl AsRawFd for CanaryWrite {
    fn as_raw_fd(&self) -> RawFd {
        self.fd
    }
}
impl std::fmt::Debug for CanaryWrite {
    fn fmt(&self, f: &mut std::fmt::Formatter<'_>) -> std::fmt::Result {
        write!(f, "CanaryWrite({})", self.fd)
    }
}
impl Drop for CanaryWrite {
    fn drop(&mut self) {
        let _g = ShimGuard::new();
        let x = w();
        x.inst_drops[self.inst].0 += 1;
        x.inst_drops[self.inst].1 = sim::handler_depth();
        x.inst_drops[self.inst].2 = sim::tid();
        unsafe { libc::close(self.fd) };
    }
}

enum IterKind {
    Only(SignalDelivery<UnixStream, SignalOnly>),
    Raw(SignalDelivery<UnixStream, WithRawSiginfo>),
    Origin(SignalDelivery<UnixStream, WithOrigin>),
}
struct IterBox {
    inst: usize,
    k: IterKind,
}

fn new_action(sig: i32, gen: usize, tagged: bool) -> usize {
    let x = w();
    x.actions.push(Action { sig, gen, sigid: None, reg_ret: None, removed_ret: None, ambiguous: false, in_progress: 0, dropped: 0, dropped_by: usize::MAX, dropped_depth: 0, tagged, reg_failed: false });
    x.removers.push(0);
    x.actions.len() - 1
}

fn register_kind(sig: i32, kind: ActKind, tag: usize) -> Result<SigId, std::io::Error> {
    match kind {
        ActKind::Canary { sigaction, panic_drop } => {
            let c = Canary { tag, panic_drop };
            if sigaction {
                unsafe {
                    signal_hook_registry::register_sigaction(sig, move |_info| {
                        let c = &c;
                        action_body(c.tag)
                    })
                }
            } else {
                unsafe {
                    signal_hook_registry::register(sig, move || {
                        let c = &c;
                        action_body(c.tag)
                    })
                }
            }
        }
        ActKind::FlagBool => signal_hook::flag::register(sig, Arc::new(AtomicBool::new(false))),
        ActKind::FlagUsize => signal_hook::flag::register_usize(sig, Arc::new(AtomicUsize::new(0)), 7),
        ActKind::PipeStream { full } => {
            let (r, wr) = UnixStream::pair()?;
            if full {
                set_nonblock(wr.as_raw_fd());
                fill_fast(wr.as_raw_fd());
            }
            w().keep_fds.push(std::os::unix::io::IntoRawFd::into_raw_fd(r));
            signal_hook::low_level::pipe::register(sig, wr)
        }
        ActKind::PipeDgram { full } => {
            let (r, wr) = UnixDatagram::pair()?;
            if full {
                set_nonblock(wr.as_raw_fd());
                fill_fd(wr.as_raw_fd());
            }
            w().keep_fds.push(std::os::unix::io::IntoRawFd::into_raw_fd(r));
            signal_hook::low_level::pipe::register(sig, wr)
        }
        ActKind::PipePipe { full } => {
            let mut fds = [0i32; 2];
            if unsafe { libc::pipe(fds.as_mut_ptr()) } != 0 {
                sim::harness_error(&format!("pipe(2) failed: {}", std::io::Error::last_os_error()));
            }
            if full {
                set_nonblock(fds[1]);
                fill_fast(fds[1]);
                // back to blocking: register_raw must make it non-blocking itself
                unsafe {
                    let fl = libc::fcntl(fds[1], libc::F_GETFL, 0);
                    libc::fcntl(fds[1], libc::F_SETFL, fl & !libc::O_NONBLOCK);
                }
            }
            w().keep_fds.push(fds[0]);
            signal_hook::low_level::pipe::register_raw(sig, fds[1])
        }
        ActKind::CondShutdownFalse => signal_hook::flag::register_conditional_shutdown(sig, 3, Arc::new(AtomicBool::new(false))),
        ActKind::CondDefaultFalse => signal_hook::flag::register_conditional_default(sig, Arc::new(AtomicBool::new(false))),
    }
}

fn op_enter() -> u64 {
    let _g = ShimGuard::new();
    let me = sim::tid();
    let x = w();
    x.in_mut_op[me] = true;
    x.seq += 1;
    sim::log(UE_OP_INV, x.seq, 0);
    x.seq
}
fn op_leave() -> u64 {
    let me = sim::tid();
    let x = w();
    x.in_mut_op[me] = false;
    x.seq += 1;
    sim::log(UE_OP_RET, x.seq, 0);
    x.seq
}

/// C01 oracle 3 at the return of a removal that removed `tag`.
fn removal_check(tag: usize, seq: u64, how: &str) {
    let me = sim::tid();
    let a = &mut w().actions[tag];
    sim::count(E_REMOVALS, 1);
    if a.in_progress > 0 {
        sim::report("C01", "action-in-progress-at-removal-return", &format!("{} of action #{} returned on T{} at event {} while an invocation of the action was still in progress", how, tag, me, seq), false);
    }
    if a.tagged && !w().leaky {
        if a.dropped != 1 {
            sim::report("C01", "captured-state-not-released-at-removal-return", &format!("{} of action #{} returned on T{} at event {} but its captured state has been dropped {} times", how, tag, me, seq, a.dropped), false);
        }
        if a.dropped_by != me {
            sim::report("C01", "released-by-wrong-thread", &format!("captured state of action #{} was released by T{}, not by the removing thread T{}", tag, a.dropped_by, me), false);
        }
        if a.dropped_depth != 0 {
            sim::report("C01", "released-inside-handler", &format!("captured state of action #{} was released inside a signal handler", tag), false);
        }
    }
    a.removed_ret = Some(seq);
}

fn exec_mop(op: &MOp, iter: &mut Option<IterBox>) {
    match op {
        MOp::Register { sig, kind, gen } => {
            let tagged = matches!(kind, ActKind::Canary { .. });
            let (tag, inv) = {
                let inv = op_enter();
                let _g = ShimGuard::new();
                let tag = new_action(*sig, *gen, tagged);
                (tag, inv)
            };
            let r = catch_unwind(AssertUnwindSafe(|| register_kind(*sig, *kind, tag)));
            let _g = ShimGuard::new();
            let ret = op_leave();
            let x = w();
            match r {
                Ok(Ok(id)) => {
                    if !x.ids_seen.insert(id) {
                        sim::report("C05", "id-reused", &format!("registration returned an id that had been handed out before: {:?}", id), false);
                    }
                    x.actions[tag].sigid = Some(id);
                    x.actions[tag].reg_ret = Some(ret);
                    x.gen_to_action[*gen] = Some(tag);
                    let ltag = if tagged { tag } else { tag + lin::UNTAGGED_BASE };
                    x.lin_ops.push(lin::Op { kind: lin::OpKind::Register { sig: *sig, tag: ltag }, inv, ret, desc: format!("T{}:register({}{})=#{}", sim::tid(), sig_name(*sig), if tagged { "" } else { ",builtin" }, tag) });
                    x.successful_mutations.push((*sig, inv, ret));
                }
                Ok(Err(e)) => {
                    x.actions[tag].reg_failed = true;
                    sim::harness_error(&format!("registration of {} failed unexpectedly: {}", sig_name(*sig), e));
                }
                Err(_) => {
                    sim::report("C18", "mutator-panicked", &format!("a registration call panicked: {}", sighook_shim::shm::get_str(&sighook_shim::shm::get().panic_msg)), true);
                }
            }
        }
        MOp::Unregister { gen } => {
            let target = {
                let _g = ShimGuard::new();
                w().gen_to_action[*gen].and_then(|t| w().actions[t].sigid.map(|id| (t, id)))
            };
            let (tag, id) = match target {
                Some(x) => x,
                None => return,
            };
            let inv = op_enter();
            let call = {
                let _g = ShimGuard::new();
                let x = w();
                x.removers[tag] += 1;
                let sig = x.actions[tag].sig;
                x.removal_calls.push((sim::tid(), sig, Some(tag), inv, None));
                x.removal_calls.len() - 1
            };
            let r = catch_unwind(AssertUnwindSafe(|| signal_hook_registry::unregister(id)));
            let _g = ShimGuard::new();
            let ret = op_leave();
            let x = w();
            x.removers[tag] -= 1;
            x.removal_calls[call].4 = Some(ret);
            let result = match &r {
                Ok(b) => *b,
                Err(_) => {
                    sim::count(E_MUT_PANIC, 1);
                    sim::count(E_POISONED, 1);
                    x.leaky = true;
                    true
                }
            };
            let sig = x.actions[tag].sig;
            if result {
                removal_check(tag, ret, "unregister");
                x.successful_mutations.push((sig, inv, ret));
            }
            let ltag = if x.actions[tag].tagged { tag } else { tag + lin::UNTAGGED_BASE };
            let unwound = r.is_err();
            if !unwound {
                x.lin_ops.push(lin::Op { kind: lin::OpKind::Unregister { sig, tag: ltag, result }, inv, ret, desc: format!("T{}:unregister(#{})={}", sim::tid(), tag, result) });
            } else {
                // the call unwound out of a panicking Drop after the swap: it did remove the action
                x.lin_ops.push(lin::Op { kind: lin::OpKind::Unregister { sig, tag: ltag, result: true }, inv, ret, desc: format!("T{}:unregister(#{})=unwound", sim::tid(), tag) });
            }
        }
        MOp::UnregisterSignal { sig } => {
            let inv = op_enter();
            let (call, definite): (usize, Vec<usize>) = {
                let _g = ShimGuard::new();
                let x = w();
                x.removal_calls.push((sim::tid(), *sig, None, inv, None));
                let call = x.removal_calls.len() - 1;
                let mut v = Vec::new();
                for (i, a) in x.actions.iter_mut().enumerate() {
                    if a.sig == *sig && a.removed_ret.is_none() && !a.reg_failed {
                        if a.reg_ret.is_some() && x.removers[i] == 0 && !a.ambiguous {
                            v.push(i);
                        } else {
                            a.ambiguous = true;
                        }
                    }
                }
                (call, v)
            };
            #[allow(deprecated)]
            let r = catch_unwind(AssertUnwindSafe(|| signal_hook_registry::unregister_signal(*sig)));
            let _g = ShimGuard::new();
            let ret = op_leave();
            let x = w();
            let result = match r {
                Ok(b) => Some(b),
                Err(_) => {
                    sim::count(E_MUT_PANIC, 1);
                    sim::count(E_POISONED, 1);
                    x.leaky = true;
                    None
                }
            };
            x.removal_calls[call].4 = Some(ret);
            if result != Some(false) {
                for t in definite.iter() {
                    // another removal call that overlaps ours may have been the one that removed it
                    let me = sim::tid();
                    let overlapped = x.removal_calls.iter().any(|(th, s2, tg, i2, r2)| {
                        *th != me && *s2 == *sig && (tg.is_none() || *tg == Some(*t)) && *i2 < ret && r2.map(|r| r > inv).unwrap_or(true)
                    });
                    if !overlapped && x.actions[*t].removed_ret.is_none() {
                        removal_check(*t, ret, "unregister_signal");
                    } else {
                        x.actions[*t].ambiguous = true;
                    }
                }
                x.successful_mutations.push((*sig, inv, ret));
            }
            // whatever of this signal existed (or was being registered) during the call and was
            // not checked above may or may not have been removed by it
            for (i, a) in x.actions.iter_mut().enumerate() {
                if a.sig == *sig && a.removed_ret.is_none() && !definite.contains(&i) {
                    a.ambiguous = true;
                }
            }
            // actions registered by iterator instances are not in the model: result unknown then
            let result = if x.iter_sigs.contains(sig) { None } else { result };
            x.lin_ops.push(lin::Op { kind: lin::OpKind::UnregisterSignal { sig: *sig, result }, inv, ret, desc: format!("T{}:unregister_signal({})={:?}", sim::tid(), sig_name(*sig), result) });
        }
        MOp::RegisterForbidden => {
            op_enter();
            let r = catch_unwind(AssertUnwindSafe(|| unsafe { signal_hook_registry::register(libc::SIGKILL, || ()) }));
            let _g = ShimGuard::new();
            op_leave();
            if r.is_err() {
                sim::count(E_MUT_PANIC, 1);
            } else {
                sim::report("C14", "forbidden-accepted", "register(SIGKILL) did not panic", false);
            }
        }
        MOp::RegisterUncheckedRefused { stop } => {
            op_enter();
            let sig = if *stop { libc::SIGSTOP } else { libc::SIGKILL };
            let r = catch_unwind(AssertUnwindSafe(|| unsafe { signal_hook_registry::register_signal_unchecked(sig, || ()) }));
            let _g = ShimGuard::new();
            op_leave();
            match r {
                Ok(Err(_)) => sim::count(E_MUT_PANIC, 1),
                Ok(Ok(_)) => sim::report("C14", "unchecked-refusal-not-passed-through", "register_signal_unchecked(SIGKILL/SIGSTOP) succeeded although the OS refuses it", false),
                Err(_) => sim::report("C18", "mutator-panicked", &format!("register_signal_unchecked of a signal the OS refuses panicked: {}", sighook_shim::shm::get_str(&sighook_shim::shm::get().panic_msg)), true),
            }
        }
        MOp::IterNew { sigs, exf } => {
            op_enter();
            {
                let _g = ShimGuard::new();
                for s in sigs.iter() {
                    w().iter_sigs.insert(*s);
                }
            }
            let r = catch_unwind(AssertUnwindSafe(|| -> Result<IterBox, std::io::Error> {
                let (rd, wr) = UnixStream::pair()?;
                let fd = std::os::unix::io::IntoRawFd::into_raw_fd(wr);
                let inst = {
                    let _g = ShimGuard::new();
                    w().inst_drops.push((0, 0, 0));
                    w().inst_drops.len() - 1
                };
                let cw = CanaryWrite { fd, inst };
                Ok(IterBox {
                    inst,
                    k: match exf {
                        0 => IterKind::Only(SignalDelivery::with_pipe(rd, cw, SignalOnly::default(), sigs.iter())?),
                        1 => IterKind::Raw(SignalDelivery::with_pipe(rd, cw, WithRawSiginfo::default(), sigs.iter())?),
                        _ => IterKind::Origin(SignalDelivery::with_pipe(rd, cw, WithOrigin::default(), sigs.iter())?),
                    },
                })
            }));
            let _g = ShimGuard::new();
            op_leave();
            match r {
                Ok(Ok(b)) => *iter = Some(b),
                _ => sim::harness_error("iterator construction failed unexpectedly"),
            }
        }
        MOp::IterAdd { sig } => {
            if let Some(b) = iter.as_ref() {
                op_enter();
                {
                    let _g = ShimGuard::new();
                    w().iter_sigs.insert(*sig);
                }
                let r = catch_unwind(AssertUnwindSafe(|| match &b.k {
                    IterKind::Only(d) => d.handle().add_signal(*sig),
                    IterKind::Raw(d) => d.handle().add_signal(*sig),
                    IterKind::Origin(d) => d.handle().add_signal(*sig),
                }));
                let _g = ShimGuard::new();
                op_leave();
                if !matches!(r, Ok(Ok(()))) {
                    sim::harness_error("iterator add_signal failed unexpectedly");
                }
            }
        }
        MOp::IterAddForbidden => {
            if let Some(b) = iter.as_ref() {
                op_enter();
                let r = catch_unwind(AssertUnwindSafe(|| match &b.k {
                    IterKind::Only(d) => d.handle().add_signal(libc::SIGKILL),
                    IterKind::Raw(d) => d.handle().add_signal(libc::SIGKILL),
                    IterKind::Origin(d) => d.handle().add_signal(libc::SIGKILL),
                }));
                let _g = ShimGuard::new();
                op_leave();
                if r.is_err() {
                    sim::count(E_MUT_PANIC, 1);
                } else {
                    sim::report("C14", "forbidden-accepted", "add_signal(SIGKILL) through an iterator handle did not panic", false);
                }
            }
        }
        MOp::IterDrop => {
            if let Some(b) = iter.take() {
                op_enter();
                let inst = b.inst;
                let r = catch_unwind(AssertUnwindSafe(move || drop(b)));
                let _g = ShimGuard::new();
                op_leave();
                let x = w();
                if r.is_err() {
                    sim::harness_error("iterator drop panicked unexpectedly");
                }
                let (n, depth, by) = x.inst_drops[inst];
                if n != 1 {
                    sim::report("C01", "iterator-write-end-not-released", &format!("dropping the iterator instance released its write end {} times", n), false);
                } else if depth != 0 {
                    // (a foreign unregister_signal may legitimately make another thread the last owner)
                    sim::report("C01", "iterator-write-end-released-in-handler", &format!("the iterator's write end was released at handler depth {} by T{}", depth, by), false);
                }
            }
        }
    }
}

fn install_prev() {
    let x = w();
    for (i, (s, p)) in x.sigs.iter().zip(x.prev.iter()).enumerate() {
        let fl = x.prev_flags.get(i).copied().unwrap_or(0);
        match p {
            // "default" installed explicitly with odd flags is still the default disposition
            PrevKind::Default => {
                if fl != 0 {
                    set_disposition_flags(*s, libc::SIG_DFL, fl)
                }
            }
            PrevKind::Ignore => set_disposition_flags(*s, libc::SIG_IGN, fl),
            PrevKind::Plain => set_disposition_flags(*s, foreign_plain as usize, fl & !libc::SA_SIGINFO),
            PrevKind::Info => set_disposition_flags(*s, foreign_info as usize, fl | libc::SA_SIGINFO),
        }
    }
}

fn injector() -> Box<dyn FnMut(&InjectCtx) -> bool> {
    Box::new(|_ctx: &InjectCtx| {
        let sig = {
            let _g = ShimGuard::new();
            let x = w();
            if x.stop_deliveries {
                return false;
            }
            let cands: Vec<i32> = x.sigs.iter().copied().filter(|s| !sim::in_handler_for(*s)).collect();
            if cands.is_empty() {
                return false;
            }
            cands[sim::choose(sim::CK_INJECT_WHAT, cands.len() as u32) as usize]
        };
        do_delivery(sig, true);
        true
    })
}

/// C18 quiescent-completion fault: at a chosen step stop starting deliveries, let the ones in
/// flight return, then freeze everybody except a mutator that is inside store(); it must finish
/// on its own.
fn drain_hook() -> Box<dyn FnMut()> {
    Box::new(|| {
        let x = w();
        match x.drain {
            DrainState::Armed(at) => {
                if sim::steps() >= at {
                    x.stop_deliveries = true;
                    sim::set_stop_inject(true);
                    x.drain = DrainState::Draining;
                }
            }
            DrainState::Draining => {
                if !sim::any_thread_in_handler() {
                    let n = sim::nthreads();
                    if let Some(t) = (1..n).find(|t| sim::thread_in_store(*t)) {
                        sim::freeze_all_but(t);
                        // thread 0 only joins; keep it frozen too
                        x.drain = DrainState::Solo { t, own_at_freeze: sim::thread_own_steps(t) };
                    }
                }
            }
            DrainState::Solo { t, own_at_freeze } => {
                let own = sim::thread_own_steps(t) - own_at_freeze;
                if !sim::thread_in_store(t) {
                    sim::count(E_DRAIN_SOLO, 1);
                    sim::thaw_all();
                    x.drain = DrainState::Done;
                } else if own > 64 {
                    sim::report(
                        "C18",
                        "mutator-needs-other-threads",
                        &format!("after all in-flight deliveries returned and no new one started, mutator T{} made {} own steps inside store() with every other thread paused and still has not finished", t, own),
                        true,
                    );
                }
            }
            _ => {}
        }
    })
}

pub fn run(spec: &RunSpec) -> ! {
    let world = Box::new(World {
        seq: 0,
        sigs: Vec::new(),
        prev: Vec::new(),
        prev_flags: Vec::new(),
        actions: Vec::with_capacity(64),
        gen_to_action: Vec::new(),
        deliveries: Vec::with_capacity(64),
        dstack: (0..sim::MAX_THREADS).map(|_| Vec::with_capacity(8)).collect(),
        lin_ops: Vec::with_capacity(64),
        ids_seen: HashSet::new(),
        removers: Vec::with_capacity(64),
        removal_calls: Vec::with_capacity(32),
        in_mut_op: vec![false; sim::MAX_THREADS],
        stop_deliveries: false,
        keep_fds: Vec::new(),
        inst_drops: Vec::new(),
        iter_sigs: HashSet::new(),
        leaky: false,
        successful_mutations: Vec::new(),
        drain: DrainState::Off,
        nactions_hint: 12,
        foreign_now: Vec::new(),
        stall_tag: None,
        stalled_once: false,
        stalled_thread: None,
    });
    unsafe { WORLD = Box::into_raw(world) };
    let sh = sighook_shim::shm::get();
    sighook_shim::shm::put_str(&mut sh.crash_prop, "C01");
    // the registry calls abort() itself only if a reader count overflows: never acceptable
    sighook_shim::shm::put_str(&mut sh.abort_prop, spec.prop.id);
    if spec.prop.id == "C03" && spec.run < spec.prop.sweep_runs {
        sweep_run(spec);
    }
    if (spec.prop.id == "C01" || spec.prop.id == "C02") && spec.run % 4096 == 1027 {
        long_stall_run(spec);
    }
    if spec.prop.id == "C03" && spec.run >= spec.prop.sweep_runs && spec.run % 16 == 5 {
        cond_default_run(spec);
    }
    let (muts, dels, cfg) = gen_scenario(spec);
    sim::note(&describe(&muts, &dels, &cfg));
    install_prev();
    let prop = spec.prop.id;
    let drain_at = if prop == "C18" && sim::work(2) == 0 { Some(5 + sim::work(120) as u64) } else { None };
    let stall_reader = prop == "C18" && sim::work(2) == 0;
    sim::start(cfg);
    sim::set_handler_step_limit(600);
    sim::set_injector(injector());
    if let Some(at) = drain_at {
        w().drain = DrainState::Armed(at);
        sim::set_step_hook(drain_hook());
    } else if stall_reader {
        // fault: a delivery that began after a writer's generation switch stalls inside its read
        // section; the writer must not depend on it
        sim::set_stall_later_reader(1);
    }
    let mut tids = Vec::new();
    for ops in muts.into_iter() {
        tids.push(sim::spawn("mutator", move || {
            let mut iter: Option<IterBox> = None;
            for op in ops.iter() {
                exec_mop(op, &mut iter);
            }
            if iter.is_some() {
                exec_mop(&MOp::IterDrop, &mut iter);
            }
        }));
    }
    for d in dels.into_iter() {
        tids.push(sim::spawn("deliverer", move || {
            for s in d.iter() {
                sim::sp_user();
                if w().stop_deliveries {
                    break;
                }
                do_delivery(*s, false);
            }
        }));
    }
    if prop == "C04" && sim::work(3) == 0 {
        // fault: somebody else replaces the pre-existing handler of a signal while (maybe) the
        // library's first registration of it is under way; only as long as the library has not
        // taken the signal over yet (afterwards it would be the application clobbering the library)
        let delay = sim::work(40);
        let cand: Vec<usize> = (0..w().sigs.len()).filter(|i| matches!(w().prev[*i], PrevKind::Plain | PrevKind::Info)).collect();
        if !cand.is_empty() {
            let si = cand[sim::work(cand.len() as u32) as usize];
            tids.push(sim::spawn("installer", move || {
                for _ in 0..delay {
                    sim::sp_user();
                }
                let _g = ShimGuard::new();
                let x = w();
                let sig = x.sigs[si];
                let (h, _) = get_disposition(sig);
                let first = match x.prev[si] {
                    PrevKind::Plain => foreign_plain as usize,
                    _ => foreign_info as usize,
                };
                if h == first {
                    x.seq += 1;
                    match x.prev[si] {
                        PrevKind::Plain => set_disposition(sig, foreign_plain2 as usize, false),
                        _ => set_disposition(sig, foreign_info2 as usize, true),
                    }
                    x.foreign_now[si] = (2, x.seq);
                    sim::count(E_FOREIGN_INSTALL, 1);
                }
            }));
        }
    }
    for t in tids {
        sim::join(t);
    }
    final_checks(spec);
    sim::finish_ok()
}

fn final_checks(spec: &RunSpec) {
    // one last delivery of every signal at quiescence: exactly the surviving actions run
    sim::set_stop_inject(true);
    let sigs = w().sigs.clone();
    for s in sigs {
        do_delivery(s, false);
    }
    let _g = ShimGuard::new();
    let x = w();
    for (i, a) in x.actions.iter().enumerate() {
        if !a.tagged || a.ambiguous || x.leaky {
            continue;
        }
        if a.removed_ret.is_some() && a.dropped != 1 {
            sim::report("C01", "captured-state-leaked", &format!("action #{} was removed but its captured state was dropped {} times", i, a.dropped), false);
        }
        if a.removed_ret.is_none() && a.reg_ret.is_some() && a.dropped != 0 {
            sim::report("C01", "captured-state-released-while-registered", &format!("action #{} is still registered but its captured state has been released", i), false);
        }
    }
    // C02: linearisability of the whole history
    let mut overlap = false;
    for d in x.deliveries.iter() {
        if let Some(e) = d.end {
            if x.successful_mutations.iter().any(|(s, inv, ret)| *s == d.sig && *inv < e && *ret > d.begin) {
                overlap = true;
                sim::count(E_DELIVERY_OVERLAP_MUT, 1);
            }
        }
    }
    let prop = spec.prop.id;
    if x.lin_ops.len() <= 60 {
        let r = lin::check(&x.lin_ops);
        sim::count(E_LIN_STATES, r.states);
        if !r.ok && sim::checking("C05") {
            sim::report("C05", "registry-differs-from-model", &format!("under concurrent mutators no linearisation of the calls against the per-signal ordered-multiset model explains their results and what the deliveries ran: {}", r.explain), false);
        }
        if !r.ok {
            sim::report("C02", "not-linearisable", &format!("no linearisation of the mutator calls explains what the deliveries ran: {}", r.explain), false);
        }
    }
    let c = &sighook_shim::shm::get().counters;
    let nontrivial = match prop {
        "C01" => c[sim::C_READ_ACROSS_SWAP] > 0 || c[E_NESTED_IN_STORE] > 0 || c[sim::C_BARRIER_LOOPED] > 0,
        "C02" => overlap,
        "C03" => c[E_DELIVERY_INSIDE_OP] > 0,
        "C04" => c[E_RACE_FALLBACK] > 0,
        "C18" => c[sim::C_BLOCK_MUTEX] > 0 || c[sim::C_BARRIER_LOOPED] > 0 || c[E_DRAIN_SOLO] > 0,
        _ => true,
    };
    if nontrivial {
        sim::mark_nontrivial();
    }
}

// ---------------------------------------------------------------------------------------------
// C03 sweep: fixed scenarios x every scheduling-point index x {nested, solo}

const SWEEP_SCENARIOS: u64 = 12;

fn sweep_run(spec: &RunSpec) -> ! {
    let per = spec.prop.sweep_runs / SWEEP_SCENARIOS; // indices*2 per scenario
    let sc = spec.run / per;
    let rem = spec.run % per;
    let idx = rem / 2 + 1;
    let solo = rem % 2 == 1;
    let a = libc::SIGUSR1;
    let b = libc::SIGUSR2;
    {
        let x = w();
        x.sigs = vec![a, b];
        x.foreign_now = vec![(1, 0); 2];
        x.prev = vec![if sc == 0 { PrevKind::Info } else { PrevKind::Default }, PrevKind::Default];
        x.gen_to_action = vec![None; 8];
        x.nactions_hint = 8;
    }
    install_prev();
    sim::note(&format!("C03 sweep scenario {} sp-index {} mode {}", sc, idx, if solo { "freeze-all-then-solo-delivery" } else { "nested-delivery" }));
    let cfg = Config {
        prop: "C03".into(),
        policy: if solo { Policy::Script { first: 1, until_own: idx, then: 2 } } else { Policy::Sticky(0) },
        silent: false,
        wm: false,
        inject_num: 1,
        inject_den: 1,
        inject_budget: if solo { 0 } else { 1 },
        max_nest: 1,
        cas_spurious_pct: 0,
        step_budget: 20_000,
        pct_horizon: 100,
    };
    sim::start(cfg);
    sim::set_handler_step_limit(400);
    // set-up by thread 0 (sequential)
    let mut iter: Option<IterBox> = None;
    let mut pre: Vec<MOp> = Vec::new();
    let op: MOp;
    let canary = ActKind::Canary { sigaction: false, panic_drop: false };
    match sc {
        0 => op = MOp::Register { sig: a, kind: canary, gen: 0 },
        1 => {
            pre.push(MOp::Register { sig: a, kind: ActKind::FlagBool, gen: 0 });
            pre.push(MOp::Register { sig: a, kind: canary, gen: 1 });
            op = MOp::Register { sig: a, kind: canary, gen: 2 };
        }
        2 => {
            pre.push(MOp::Register { sig: a, kind: canary, gen: 0 });
            pre.push(MOp::Register { sig: a, kind: ActKind::FlagBool, gen: 1 });
            pre.push(MOp::Register { sig: a, kind: ActKind::FlagUsize, gen: 2 });
            op = MOp::Unregister { gen: 0 };
        }
        3 => {
            pre.push(MOp::Register { sig: a, kind: canary, gen: 0 });
            pre.push(MOp::Register { sig: a, kind: ActKind::Canary { sigaction: true, panic_drop: false }, gen: 1 });
            op = MOp::UnregisterSignal { sig: a };
        }
        4 => {
            pre.push(MOp::Register { sig: a, kind: ActKind::PipeStream { full: false }, gen: 0 });
            op = MOp::Register { sig: b, kind: canary, gen: 1 };
        }
        5 => {
            pre.push(MOp::Register { sig: a, kind: ActKind::PipeDgram { full: true }, gen: 0 });
            pre.push(MOp::Register { sig: a, kind: canary, gen: 1 });
            op = MOp::Unregister { gen: 0 };
        }
        6 => {
            pre.push(MOp::Register { sig: a, kind: canary, gen: 0 });
            op = MOp::IterNew { sigs: vec![a], exf: 0 };
        }
        7 => {
            pre.push(MOp::IterNew { sigs: vec![a], exf: 0 });
            op = MOp::IterAdd { sig: b };
        }
        8 => {
            pre.push(MOp::IterNew { sigs: vec![a], exf: 1 });
            op = MOp::IterDrop;
        }
        9 => {
            pre.push(MOp::Register { sig: a, kind: ActKind::CondShutdownFalse, gen: 0 });
            pre.push(MOp::Register { sig: a, kind: ActKind::CondDefaultFalse, gen: 1 });
            op = MOp::Register { sig: a, kind: canary, gen: 2 };
        }
        10 => {
            pre.push(MOp::IterNew { sigs: vec![a, b], exf: 2 });
            op = MOp::IterDrop;
        }
        _ => {
            pre.push(MOp::Register { sig: a, kind: ActKind::PipePipe { full: true }, gen: 0 });
            op = MOp::Register { sig: a, kind: ActKind::Canary { sigaction: true, panic_drop: false }, gen: 1 };
        }
    }
    for p in pre.iter() {
        exec_mop(p, &mut iter);
    }
    if !solo {
        sim::set_injector(Box::new(move |_c: &InjectCtx| {
            do_delivery(libc::SIGUSR1, true);
            true
        }));
        sim::set_inject_at(1, idx);
    }
    let m = sim::spawn("mutator", move || {
        let mut iter = iter;
        exec_mop(&op, &mut iter);
        // report whether the sweep index was inside the operation
        std::mem::forget(iter);
    });
    let d = sim::spawn("deliverer", move || {
        if solo {
            do_delivery(libc::SIGUSR1, false);
        }
    });
    sim::join(d);
    if !solo {
        sim::join(m);
    }
    let _g = ShimGuard::new();
    let c = &sighook_shim::shm::get().counters;
    let hit = if solo { sim::thread_frozen(1) } else { c[sim::C_INJECTED] > 0 };
    if hit && c[E_DELIVERY_INSIDE_OP] > 0 {
        sim::mark_nontrivial();
    } else {
        sim::count(E_SWEEP_OUT_OF_RANGE, 1);
    }
    sim::finish_ok()
}


// ---------------------------------------------------------------------------------------------
// long-stall fault (C01/C02): a delivery is descheduled inside an action for more than a million
// iterations of the writer's wait loop; the removal of a later action of that delivery must not
// return before the delivery does, however long that takes

fn long_stall_run(spec: &RunSpec) -> ! {
    let a = libc::SIGUSR1;
    {
        let x = w();
        x.sigs = vec![a];
        x.prev = vec![PrevKind::Default];
        x.foreign_now = vec![(1, 0)];
        x.gen_to_action = vec![None; 4];
    }
    let spins_wanted: u64 = 1_200_000 + (sim::work(4) as u64) * 100_000;
    sim::note(&format!("long-stall fault: a delivery of USR1 is descheduled inside its first action while another thread unregisters its second action; the writer is left spinning for {} iterations before the delivery resumes", spins_wanted));
    let cfg = Config { prop: spec.prop.id.to_string(), policy: Policy::Uniform, step_budget: 12_000_000, ..Config::default() };
    sim::start(cfg);
    sim::set_handler_step_limit(0);
    sim::set_spin_patience(u32::MAX);
    sim::set_auto_thaw(true);
    let mut none: Option<IterBox> = None;
    let canary = ActKind::Canary { sigaction: false, panic_drop: false };
    exec_mop(&MOp::Register { sig: a, kind: canary, gen: 0 }, &mut none);
    exec_mop(&MOp::Register { sig: a, kind: canary, gen: 1 }, &mut none);
    w().stall_tag = Some(0);
    let d = sim::spawn("deliverer", move || {
        do_delivery(a, false);
    });
    let m = sim::spawn("mutator", move || {
        // start the removal only once the delivery is stalled inside its first action
        while !w().stalled_once {
            sim::sp_user();
        }
        let mut none: Option<IterBox> = None;
        exec_mop(&MOp::Unregister { gen: 1 }, &mut none);
    });
    sim::set_step_hook(Box::new(move || {
        let x = w();
        if let Some(t) = x.stalled_thread {
            if sim::thread_frozen(t) {
                let removal_returned = x.actions.get(1).map(|a| a.removed_ret.is_some()).unwrap_or(false);
                if sim::thread_spins(m) >= spins_wanted || removal_returned || sim::thread_state(m) == sim::TState::Finished {
                    sim::count(E_LONG_STALL, 1);
                    sim::thaw(t);
                }
            }
        }
    }));
    sim::join(d);
    sim::join(m);
    sim::set_step_hook(Box::new(|| {}));
    final_checks(spec);
    sim::mark_nontrivial();
    sim::finish_ok()
}

/// C03, the "conditional default" built-in: two terminating signals with an armed
/// `register_conditional_default`, delivered on one or two threads, the second one also nested
/// inside the first at its system calls (`sigprocmask`, `raise` are scheduling points).  On a
/// correct tree the process is killed by one of the two signals the moment the first emulation
/// re-raises; a delivery that waits for the other one instead never returns.
fn cond_default_run(spec: &RunSpec) -> ! {
    let pool = [libc::SIGUSR1, libc::SIGUSR2, libc::SIGHUP, libc::SIGTERM, libc::SIGINT, libc::SIGALRM];
    let a = pool[sim::work(pool.len() as u32) as usize];
    let b = loop {
        let b = pool[sim::work(pool.len() as u32) as usize];
        if b != a {
            break b;
        }
    };
    let two_threads = sim::work(2) == 0;
    let flag_first = sim::work(2) == 0;
    let inj = [(1u32, 1u32), (1, 2), (1, 4), (0, 1)][sim::work(4) as usize];
    let policy = match sim::work(4) {
        0 => Policy::Uniform,
        1 => Policy::Sticky(10),
        2 => Policy::Pct(1),
        _ => Policy::Sticky(50),
    };
    sim::note(&format!("armed conditional default on {} and {}; second delivery on another thread: {}; nested injection {}/{}; plain flag registered first: {}; policy {:?}", sig_name(a), sig_name(b), two_threads, inj.0, inj.1, flag_first, policy));
    let cfg = Config { prop: spec.prop.id.to_string(), policy, inject_num: inj.0, inject_den: inj.1, inject_budget: if inj.0 == 0 { 0 } else { 1 }, max_nest: 2, step_budget: 20_000, ..Config::default() };
    sim::start(cfg);
    sim::set_handler_step_limit(600);
    let armed = Arc::new(AtomicBool::new(true));
    if flag_first {
        signal_hook::flag::register(a, Arc::new(AtomicBool::new(false))).expect("flag::register");
    }
    signal_hook::flag::register_conditional_default(a, Arc::clone(&armed)).expect("register_conditional_default");
    signal_hook::flag::register_conditional_default(b, Arc::clone(&armed)).expect("register_conditional_default");
    {
        let sh = sighook_shim::shm::get();
        sh.expect_exit = a | (b << 8);
        sh.expect_set = 3;
    }
    sim::mark_nontrivial();
    fn deliver_plain(sig: i32) {
        let mut info = make_info(sig, 1);
        let ctx_dummy = [0u64; 4];
        sim::deliver(sig, &mut info as *mut RawInfo as *mut libc::siginfo_t, &ctx_dummy as *const _ as *mut libc::c_void);
    }
    // nested: the other signal arrives on the thread that is inside a delivery
    sim::set_injector(Box::new(move |ctx: &InjectCtx| {
        if ctx.depth == 0 {
            return false;
        }
        let other = if sim::in_handler_for(a) { b } else { a };
        if sim::in_handler_for(other) {
            return false;
        }
        deliver_plain(other);
        true
    }));
    let t1 = sim::spawn("deliverer", move || {
        sim::sp_user();
        deliver_plain(a);
    });
    let t2 = if two_threads {
        Some(sim::spawn("deliverer", move || {
            sim::sp_user();
            deliver_plain(b);
        }))
    } else {
        None
    };
    sim::join(t1);
    if let Some(t) = t2 {
        sim::join(t);
    }
    // still alive: the armed emulation did not terminate the process (not C03's concern)
    sighook_shim::shm::get().expect_set = 0;
    sim::report("C16", "armed-default-did-not-terminate", &format!("deliveries of {} and {} with an armed conditional default returned and the process is still running", sig_name(a), sig_name(b)), true);
    sim::finish_ok()
}
