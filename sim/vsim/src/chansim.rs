//! chansim: `low_level::channel::Channel` under concurrent / nested senders and receivers.
//! Serves C06 (5-slot FIFO semantics), C07 (cells never raced, values dropped exactly once),
//! C08 (operations never block or panic, also nested).

use std::panic::{catch_unwind, AssertUnwindSafe};
use std::sync::Arc;

use sighook_shim::sim::{self, Config, InjectCtx, Policy, ShimGuard, VC};
use signal_hook::low_level::channel::Channel;

use crate::driver::RunSpec;
use crate::props::*;
use crate::util::*;

pub const CHAN_REAL: &[&str] = &["src/low_level/channel.rs: real code from /repo (queue words through the shim atomics)", "payload destructors (token type with Drop)"];
pub const CHAN_STUB: &[&str] = &[
    "thread scheduling (simulator baton)",
    "visibility of atomics: view model honouring the declared Relaxed/Acquire/Release orderings (stale reads in WM runs)",
    "a signal handler's send = a nested send injected at a scheduling point of the interrupted operation on the same thread",
];

pub const PROPS: &[Prop] = &[
    Prop {
        id: "C06",
        engine: Engine::Chan,
        level: "exploration",
        sweep_runs: 0,
        quick_runs: 250_000,
        thorough_runs: 6_000_000,
        rule: "1-3 producer threads (2-7 sends each), 1-2 consumers, nested sends/recvs injected inside send/recv of the same thread, final sequential drain; a quarter of the runs are sequential scripts checked against the exact 5-deep drop-when-full FIFO; concurrent histories are checked with the definite-order clauses (a)-(e) (step order in SC runs, happens-before in WM runs). Non-trivial: a CAS on a queue word failed for a real reason (two operations overlapped) or a nested operation ran. Distinct: by schedule signature.",
        probes: &[
            (E_CHAN_FULL_DISCARD, "send_discarded_because_full"),
            (E_CHAN_EMPTY_NONE, "recv_returned_none"),
            (E_CHAN_NESTED, "nested_operation_ran"),
            (E_CHAN_POS34, "queue_positions_3_4_used"),
            (E_CAS_REAL_FAIL, "cas_failed_for_a_real_reason"),
            (E_CHAN_OPS, "channel_operations"),
        ],
        real: CHAN_REAL,
        stub: CHAN_STUB,
        assumptions: &["weak-memory layer under-approximates C11: append-only modification order, RMWs read the newest message, no load buffering"],
    },
    Prop {
        id: "C07",
        engine: Engine::Chan,
        level: "exploration",
        sweep_runs: 0,
        quick_runs: 250_000,
        thorough_runs: 6_000_000,
        rule: "same runs as C06; oracles: FastTrack-style happens-before check on every cell access built from the channel's declared orderings (release sequences through RMWs), and per-token drop accounting (exactly once; site = receiver, own full send, or channel drop). Non-trivial: two different threads accessed the same cell during the run or a nested operation ran. Distinct: by schedule signature.",
        probes: &[(E_CHAN_FULL_DISCARD, "send_discarded_because_full"), (E_CHAN_NESTED, "nested_operation_ran"), (E_CHAN_OPS, "channel_operations"), (E_CAS_REAL_FAIL, "cas_failed_for_a_real_reason"), (E_CHAN_DROP_PANIC, "fault:payload_destructor_panicked_during_channel_drop")],
        real: CHAN_REAL,
        stub: CHAN_STUB,
        assumptions: &["same-thread nested accesses are invisible to vector clocks; they are covered by the drop-site rule and C06 (a)/(e)"],
    },
    Prop {
        id: "C08",
        engine: Engine::Chan,
        level: "fault_enumeration",
        sweep_runs: 4320,
        quick_runs: 120_000,
        thorough_runs: 2_000_000,
        rule: "sweep: channel state in {empty, 1, 4, full, another thread frozen mid-send, another thread frozen mid-recv} x op in {send, recv} x every scheduling-point index of the op x nested {none, send, recv} x weak-CAS spurious-failure rate {0, 30%, 60%} (plus Channel::new under spurious failures), everybody else frozen; then seeded search with freeze and spurious-CAS faults. Oracles: own-step bound 16 + 4 per spurious failure, no spin/yield/lock, no panic. Non-trivial: the operation was interrupted by a nested operation, suffered a spurious failure, or ran with another thread frozen mid-operation. Distinct: by schedule signature.",
        probes: &[(E_CHAN_NESTED, "nested_operation_ran"), (E_SWEEP_OUT_OF_RANGE, "sweep_index_beyond_operation_end"), (E_SOLO_COMPLETIONS, "operations_completed_solo_with_others_frozen"), (E_CHAN_OPS, "channel_operations")],
        real: CHAN_REAL,
        stub: CHAN_STUB,
        assumptions: &["a bounded number (<= 3 in a row) of spurious weak-CAS failures"],
    },
];

// ---------------------------------------------------------------------------------------------
// type-contract probe (compile-time, auxiliary to the simulation): a shared `&Channel<T>` moves whole
// `T`s between threads and drops them there, so it may be `Sync` exactly for `T: Send`.  The probe
// evaluates, without failing the build, whether `Channel<P>` is `Sync` for a payload `P` that is
// `Sync` but not `Send`.
struct SyncNotSend(std::marker::PhantomData<std::sync::MutexGuard<'static, ()>>);
struct ProbeSync<T: ?Sized>(std::marker::PhantomData<T>);
trait ProbeFallback {
    const IS_SYNC: bool = false;
}
impl<T: ?Sized> ProbeFallback for ProbeSync<T> {}
impl<T: ?Sized + Sync> ProbeSync<T> {
    const IS_SYNC: bool = true;
}
const CHANNEL_SYNC_FOR_NON_SEND_PAYLOAD: bool = <ProbeSync<Channel<SyncNotSend>>>::IS_SYNC;
const CHANNEL_SYNC_FOR_SEND_PAYLOAD: bool = <ProbeSync<Channel<std::cell::Cell<u8>>>>::IS_SYNC;

#[derive(Clone, Debug, PartialEq)]
enum OpK {
    Send(usize),
    Recv(Option<usize>),
}

#[derive(Clone, Debug)]
struct OpRec {
    kind: OpK,
    tid: usize,
    inv_seq: u64,
    ret_seq: u64,
    inv_vc: VC,
    ret_vc: VC,
    nested: bool,
    done: bool,
    /// token was dropped inside this very send
    discarded: bool,
}

#[derive(Clone, Debug, Default)]
struct TokSt {
    drops: u32,
    /// 0 = not dropped, 1 = consumer/harness, 2 = own send (discard), 3 = channel drop, 4 = foreign
    site: u8,
    foreign_desc: String,
}

struct World {
    seq: u64,
    ops: Vec<OpRec>,
    toks: Vec<TokSt>,
    opstack: Vec<Vec<usize>>,
    consuming: Vec<bool>,
    chan_dropping: bool,
    chan: Option<Arc<Channel<Tok>>>,
    wm: bool,
    nested_kinds: u32,
    /// how many values the final drain may take before the channel is dropped (None = all)
    final_drain: Option<u32>,
    /// fault: this token's destructor panics when it is dropped together with the channel
    panic_tok: Option<usize>,
    panic_fired: bool,
    solo_target: Option<usize>,
    nested_cost: Vec<u64>,
    completed: Vec<u64>,
}

static mut WORLD: *mut World = std::ptr::null_mut();
fn w() -> &'static mut World {
    unsafe { &mut *WORLD }
}

struct Tok {
    id: usize,
}

impl Drop for Tok {
    fn drop(&mut self) {
        let _g = ShimGuard::new();
        let x = w();
        let me = sim::tid();
        let me = if me == usize::MAX { 0 } else { me };
        let t = &mut x.toks[self.id];
        t.drops += 1;
        x.seq += 1;
        sim::log(UE_TOK_DROP, self.id as u64, t.drops as u64);
        if t.drops > 1 {
            sim::report("C07", "value-dropped-twice", &format!("token #{} was dropped {} times", self.id, t.drops), false);
        }
        if x.chan_dropping {
            t.site = 3;
        } else if x.consuming[me] {
            t.site = 1;
        } else {
            match x.opstack[me].last() {
                Some(op) => {
                    let o = &mut x.ops[*op];
                    if o.kind == OpK::Send(self.id) {
                        t.site = 2;
                        o.discarded = true;
                    } else {
                        t.site = 4;
                        t.foreign_desc = format!("{:?} on T{}", o.kind, me);
                    }
                }
                None => {
                    t.site = 4;
                    t.foreign_desc = format!("outside any operation on T{}", me);
                }
            }
        }
        if x.chan_dropping && x.panic_tok == Some(self.id) && !x.panic_fired {
            x.panic_fired = true;
            sim::count(E_CHAN_DROP_PANIC, 1);
            drop(_g);
            panic!("payload destructor panics (injected)");
        }
        if t.site == 4 {
            let d = t.foreign_desc.clone();
            sim::report("C07", "value-destroyed-by-foreign-operation", &format!("token #{} was destroyed inside a foreign operation: {}", self.id, d), false);
            sim::report("C06", "value-lost", &format!("token #{} was sent (not discarded by its own send) but can never be received: it was destroyed inside a foreign operation: {}", self.id, d), false);
        }
    }
}

fn op_begin(kind: OpK, nested: bool) -> usize {
    let _g = ShimGuard::new();
    let x = w();
    let me = sim::tid();
    x.seq += 1;
    let vc = sim::tick();
    x.ops.push(OpRec { kind, tid: me, inv_seq: x.seq, ret_seq: 0, inv_vc: vc, ret_vc: vc, nested, done: false, discarded: false });
    let id = x.ops.len() - 1;
    x.opstack[me].push(id);
    sim::count(E_CHAN_OPS, 1);
    id
}

fn op_end(id: usize, result: Option<Option<usize>>) {
    let _g = ShimGuard::new();
    let x = w();
    let me = sim::tid();
    x.seq += 1;
    let vc = sim::tick();
    let o = &mut x.ops[id];
    o.ret_seq = x.seq;
    o.ret_vc = vc;
    o.done = true;
    if let Some(r) = result {
        o.kind = OpK::Recv(r);
    }
    x.opstack[me].pop();
    if x.opstack[me].is_empty() {
        x.completed[me] += 1;
    }
}

/// One send with all per-operation oracles.
fn do_send(nested: bool) {
    let chan = w().chan.as_ref().unwrap().clone();
    let tok = {
        let _g = ShimGuard::new();
        let x = w();
        x.toks.push(TokSt::default());
        x.toks.len() - 1
    };
    let id = op_begin(OpK::Send(tok), nested);
    sim::log(UE_SEND, tok as u64, nested as u64);
    let own0 = sim::own_steps();
    let spur0 = sim::cas_spurious_fired();
    let nest0 = w().nested_cost[sim::tid()];
    let r = catch_unwind(AssertUnwindSafe(|| chan.send(Tok { id: tok })));
    step_bound("send", own0, spur0, nested, nest0);
    if r.is_err() {
        let _g = ShimGuard::new();
        sim::report("C08", "operation-panicked", &format!("send panicked: {}", sighook_shim::shm::get_str(&sighook_shim::shm::get().panic_msg)), true);
    }
    op_end(id, None);
    let _g = ShimGuard::new();
    if w().ops[id].discarded {
        sim::count(E_CHAN_FULL_DISCARD, 1);
    }
}

fn do_recv(nested: bool) -> Option<usize> {
    let chan = w().chan.as_ref().unwrap().clone();
    let id = op_begin(OpK::Recv(None), nested);
    let own0 = sim::own_steps();
    let spur0 = sim::cas_spurious_fired();
    let nest0 = w().nested_cost[sim::tid()];
    let r = catch_unwind(AssertUnwindSafe(|| chan.recv()));
    step_bound("recv", own0, spur0, nested, nest0);
    let got = match r {
        Ok(v) => v,
        Err(_) => {
            let _g = ShimGuard::new();
            sim::report("C08", "operation-panicked", &format!("recv panicked: {}", sighook_shim::shm::get_str(&sighook_shim::shm::get().panic_msg)), true);
            None
        }
    };
    let tid_ = got.as_ref().map(|t| t.id);
    sim::log(UE_RECV, tid_.map(|t| t as u64).unwrap_or(u64::MAX), nested as u64);
    op_end(id, Some(tid_));
    {
        let _g = ShimGuard::new();
        let x = w();
        match tid_ {
            None => sim::count(E_CHAN_EMPTY_NONE, 1),
            Some(t) => {
                if t >= x.toks.len() {
                    sim::report("C06", "received-value-never-sent", &format!("recv returned token #{} which was never sent", t), true);
                }
                // (a) at most once
                let n = x.ops.iter().filter(|o| o.kind == OpK::Recv(Some(t))).count();
                if n > 1 {
                    sim::report("C06", "value-received-twice", &format!("token #{} was returned by {} receive operations", t, n), true);
                }
            }
        }
        let me = sim::tid();
        x.consuming[me] = true;
    }
    drop(got);
    {
        let _g = ShimGuard::new();
        let me = sim::tid();
        w().consuming[me] = false;
    }
    tid_
}

/// C08: with every other thread paused an operation finishes within a small number of own steps.
/// The bound is checked whenever nothing else ran in between (own steps == global steps elapsed)
/// and always for nested operations (nothing else can run on behalf of an interrupted thread).
fn step_bound(what: &str, own0: u64, spur0: u64, nested: bool, nest0: u64) {
    let _g = ShimGuard::new();
    let me = sim::tid();
    // own steps of this operation, without those of operations nested inside it
    let own = sim::own_steps() - own0 - (w().nested_cost[me] - nest0);
    if nested {
        w().nested_cost[me] += sim::own_steps() - own0;
    }
    let spur = sim::cas_spurious_fired() - spur0;
    // each concurrent real CAS failure legitimately costs a retry; count them via the probe
    let bound = 16 + 4 * spur;
    let real_fail_budget = sighook_shim::shm::get().counters[E_CAS_REAL_FAIL] * 4;
    if own > bound + real_fail_budget {
        sim::report("C08", "operation-step-bound", &format!("{} made {} own steps (bound {} + {} for real CAS failures)", what, own, bound, real_fail_budget), true);
    }
}

fn prec(a: &OpRec, b: &OpRec, wm: bool) -> bool {
    // a.ret definitely before b.inv
    if !a.done {
        return false;
    }
    if a.tid == b.tid || !wm {
        return a.ret_seq < b.inv_seq;
    }
    b.inv_vc[a.tid] >= a.ret_vc[a.tid]
}

fn send_op_of(ops: &[OpRec], tok: usize) -> Option<usize> {
    ops.iter().position(|o| o.kind == OpK::Send(tok))
}

/// The history oracle: clauses (a)-(e) of C06 / C07's conservation.
fn check_history() {
    let x = w();
    let wm = x.wm;
    let ops = &x.ops;
    let ntok = x.toks.len();
    // who received what
    let mut recv_of: Vec<Vec<usize>> = vec![Vec::new(); ntok];
    for (i, o) in ops.iter().enumerate() {
        if let OpK::Recv(Some(t)) = o.kind {
            if t < ntok {
                recv_of[t].push(i);
            }
        }
    }
    // (b) FIFO
    for a in 0..ntok {
        for b in 0..ntok {
            if a == b || recv_of[a].is_empty() || recv_of[b].is_empty() {
                continue;
            }
            let (sa, sb) = (send_op_of(ops, a).unwrap(), send_op_of(ops, b).unwrap());
            if prec(&ops[sa], &ops[sb], wm) {
                let (ra, rb) = (recv_of[a][0], recv_of[b][0]);
                if prec(&ops[rb], &ops[ra], wm) {
                    sim::report(
                        "C06",
                        "fifo-order",
                        &format!("token #{} was completely sent before the send of token #{} began, yet #{} was received (op {}) definitely before #{} (op {})", a, b, b, rb, a, ra),
                        false,
                    );
                }
            }
        }
    }
    // (c) discard only when five others may be outstanding
    for (si, s) in ops.iter().enumerate() {
        if let OpK::Send(st) = s.kind {
            if !s.discarded {
                continue;
            }
            let mut holders = 0;
            for v in 0..ntok {
                if v == st {
                    continue;
                }
                let sv = &ops[send_op_of(ops, v).unwrap()];
                if prec(s, sv, wm) {
                    continue; // v's send started definitely after s returned
                }
                if recv_of[v].iter().any(|r| prec(&ops[*r], s, wm)) {
                    continue; // v was completely received definitely before s began
                }
                if sv.discarded && prec(sv, s, wm) {
                    continue; // v itself was discarded definitely before s began
                }
                holders += 1;
            }
            if holders < 5 {
                sim::report(
                    "C06",
                    "discard-while-not-full",
                    &format!("send of token #{} (op {}) discarded its value although only {} other values can have been outstanding at any instant of that send", st, si, holders),
                    false,
                );
            }
        }
    }
    // (d) empty
    for (ri, r) in ops.iter().enumerate() {
        if r.kind != OpK::Recv(None) {
            continue;
        }
        for v in 0..ntok {
            let sv = &ops[send_op_of(ops, v).unwrap()];
            if sv.discarded || !prec(sv, r, wm) {
                continue;
            }
            // every recv that took v began definitely after r returned?
            if recv_of[v].iter().all(|t| prec(r, &ops[*t], wm)) {
                sim::report(
                    "C06",
                    "empty-while-value-present",
                    &format!("recv (op {}) reported empty although token #{} had been completely sent before it began and was not taken until after it returned", ri, v),
                    false,
                );
            }
        }
    }
}

fn sequential_script(spec: &RunSpec) -> ! {
    // exact model: 5-deep FIFO that drops when full
    let n = 4 + sim::work(28) as usize;
    let mut script = Vec::new();
    for _ in 0..n {
        script.push(sim::work(5) < 3); // true = send
    }
    sim::note(&format!("sequential script (true=send): {:?}", script));
    let cfg = Config { prop: spec.prop.id.to_string(), cas_spurious_pct: if sim::work(2) == 0 { 30 } else { 0 }, ..Config::default() };
    sim::start(cfg);
    w().chan = Some(Arc::new(Channel::new()));
    let mut model: std::collections::VecDeque<usize> = std::collections::VecDeque::new();
    for (k, is_send) in script.iter().enumerate() {
        if *is_send {
            let next_tok = w().toks.len();
            do_send(false);
            let discarded = w().ops.last().unwrap().discarded;
            if model.len() < 5 {
                if discarded {
                    sim::report("C06", "discard-while-not-full", &format!("sequential script step {}: send discarded with only {} values queued", k, model.len()), true);
                }
                model.push_back(next_tok);
            } else if !discarded {
                sim::report("C06", "sixth-value-accepted", &format!("sequential script step {}: a sixth value was accepted", k), true);
            }
            if model.len() >= 4 {
                sim::count(E_CHAN_POS34, 1);
            }
        } else {
            let got = do_recv(false);
            let want = model.pop_front();
            if got != want {
                sim::report("C06", "sequential-model-mismatch", &format!("sequential script step {}: recv returned {:?}, the 5-deep FIFO model says {:?}", k, got, want), true);
            }
        }
    }
    finish(true)
}

fn finish(nontrivial: bool) -> ! {
    // final drain + drop of the channel + conservation
    sim::set_stop_inject(true);
    // the channel is dropped either drained or with values still in flight (after some were
    // received, so that queue position and slot number differ)
    let mut left = w().final_drain;
    loop {
        if left == Some(0) {
            break;
        }
        if do_recv(false).is_none() {
            break;
        }
        if let Some(n) = left.as_mut() {
            *n -= 1;
        }
    }
    let drained = left != Some(0);
    check_history();
    {
        let _g = ShimGuard::new();
        let x = w();
        x.chan_dropping = true;
    }
    let ch = w().chan.take().unwrap();
    match Arc::try_unwrap(ch) {
        Ok(c) => {
            // (one payload's destructor may panic by injection: the others must still be dropped)
            let r = catch_unwind(AssertUnwindSafe(move || drop(c)));
            if r.is_err() && !w().panic_fired {
                sim::report("C08", "operation-panicked", "dropping the channel panicked", true);
            }
        }
        Err(_) => sim::harness_error("channel still shared at the end of the run"),
    }
    let _g = ShimGuard::new();
    let x = w();
    x.chan_dropping = false;
    for (i, t) in x.toks.iter().enumerate() {
        if t.drops == 0 && t.site == 0 {
            sim::report("C06", "value-lost", &format!("token #{} was sent but was neither received, discarded by its send, nor found in the channel at the end", i), false);
        }
        if t.drops != 1 {
            sim::report("C07", "value-not-dropped-exactly-once", &format!("token #{} was dropped {} times by the end of the run (channel dropped)", i, t.drops), true);
        }
        if t.site == 3 && drained {
            // dropped with the channel although the final drain found the channel empty
            sim::report("C06", "value-stranded-in-channel", &format!("token #{} was still inside the channel after the final drain reported empty", i), false);
        }
    }
    if nontrivial {
        sim::mark_nontrivial();
    }
    sim::finish_ok()
}

fn injector() -> Box<dyn FnMut(&InjectCtx) -> bool> {
    Box::new(|ctx: &InjectCtx| {
        let kind = {
            let _g = ShimGuard::new();
            let x = w();
            // only while the thread is inside a channel operation (a handler interrupting it)
            if x.opstack[ctx.tid].is_empty() || x.chan.is_none() {
                return false;
            }
            if x.nested_kinds == 2 {
                sim::choose(sim::CK_INJECT_WHAT, 2)
            } else {
                0
            }
        };
        sim::count(E_CHAN_NESTED, 1);
        sim::enter_handler();
        if kind == 0 {
            do_send(true);
        } else {
            do_recv(true);
        }
        sim::exit_handler();
        true
    })
}

pub fn run(spec: &RunSpec) -> ! {
    let world = Box::new(World {
        seq: 0,
        ops: Vec::with_capacity(128),
        toks: Vec::with_capacity(64),
        opstack: (0..sim::MAX_THREADS).map(|_| Vec::with_capacity(4)).collect(),
        consuming: vec![false; sim::MAX_THREADS],
        chan_dropping: false,
        chan: None,
        wm: false,
        nested_kinds: 1,
        final_drain: None,
        panic_tok: None,
        panic_fired: false,
        solo_target: None,
        nested_cost: vec![0; sim::MAX_THREADS],
        completed: vec![0; sim::MAX_THREADS],
    });
    unsafe { WORLD = Box::into_raw(world) };
    let sh = sighook_shim::shm::get();
    sighook_shim::shm::put_str(&mut sh.crash_prop, "C07");
    let prop = spec.prop.id;
    if CHANNEL_SYNC_FOR_NON_SEND_PAYLOAD && spec.run % 1024 == 0 {
        let _ = &SyncNotSend(std::marker::PhantomData);
        sim::start(Config { prop: prop.to_string(), ..Config::default() });
        sim::report(
            "C07",
            "channel-sync-for-non-send-payload",
            "type-contract probe: Channel<P> is Sync for a payload P that is Sync but not Send (e.g. a MutexGuard): safe code can then move a thread-bound value to another thread through a shared channel and drop it there, outside every ordering the channel establishes",
            true,
        );
    }
    let _ = CHANNEL_SYNC_FOR_SEND_PAYLOAD;
    if prop == "C08" && spec.run < spec.prop.sweep_runs {
        sweep_run(spec);
    }
    if sim::work(3) == 0 {
        w().final_drain = Some(sim::work(3));
        if sim::work(2) == 0 {
            w().panic_tok = Some(sim::work(8) as usize);
        }
    }
    if sim::work(4) == 0 && prop != "C08" {
        sequential_script(spec);
    }
    let nprod = 1 + sim::work(3) as usize;
    let ncons = 1 + sim::work(2) as usize;
    let deep = spec.tier == Tier::Thorough;
    let sends: Vec<usize> = (0..nprod).map(|_| 2 + sim::work(if deep { 10 } else { 6 }) as usize).collect();
    let recvs: Vec<usize> = (0..ncons).map(|_| 2 + sim::work(if deep { 12 } else { 8 }) as usize).collect();
    let policy = match sim::work(8) {
        0 | 1 => Policy::Uniform,
        2 => Policy::Sticky(5),
        3 => Policy::Sticky(20),
        4 => Policy::Sticky(50),
        5 => Policy::Pct(0),
        6 => Policy::Pct(1),
        _ => Policy::Pct(2),
    };
    let wm = sim::work(if spec.tier == Tier::Thorough { 3 } else { 4 }) == 0;
    let inj = [(0u32, 1u32), (1, 12), (1, 6), (1, 3)][sim::work(4) as usize];
    let spur = [0, 0, 15, 40][sim::work(4) as usize];
    let nested_kinds = 1 + sim::work(2);
    let freeze_at = if prop == "C08" && sim::work(2) == 0 { Some(3 + sim::work(60) as u64) } else { None };
    let cfg = Config {
        prop: prop.to_string(),
        policy,
        silent: false,
        wm,
        inject_num: inj.0,
        inject_den: inj.1,
        inject_budget: if inj.0 == 0 { 0 } else { 1 + sim::work(3) },
        max_nest: 1,
        cas_spurious_pct: spur,
        step_budget: 20_000,
        pct_horizon: 120,
    };
    sim::note(&format!("producers {:?} consumers {:?} policy {:?} wm {} inject {}/{} spurious {}% nested-kinds {} freeze-at {:?}", sends, recvs, cfg.policy, wm, inj.0, inj.1, spur, nested_kinds, freeze_at));
    {
        let x = w();
        x.wm = wm;
        x.nested_kinds = nested_kinds;
    }
    sim::start(cfg);
    sim::set_handler_step_limit_for(200, "C08");
    match catch_unwind(|| Channel::<Tok>::new()) {
        Ok(c) => w().chan = Some(Arc::new(c)),
        Err(_) => sim::report("C08", "operation-panicked", "Channel::new panicked", true),
    }
    sim::set_injector(injector());
    if let Some(at) = freeze_at {
        sim::set_auto_thaw(true);
        // freeze fault: at step `at`, pause everybody except one thread that is inside an
        // operation; it must complete on its own; then thaw.
        let mut state = 0u8;
        let mut own_at = 0u64;
        let mut done_at = 0u64;
        sim::set_step_hook(Box::new(move || {
            let x = w();
            match state {
                0 => {
                    if sim::steps() >= at {
                        let n = sim::nthreads();
                        if let Some(t) = (1..n).find(|t| !x.opstack[*t].is_empty()) {
                            sim::freeze_all_but(t);
                            x.solo_target = Some(t);
                            own_at = sim::thread_own_steps(t);
                            done_at = x.completed[t];
                            state = 1;
                        }
                    }
                }
                1 => {
                    let t = x.solo_target.unwrap();
                    if x.opstack[t].is_empty() || x.completed[t] > done_at {
                        sim::count(E_SOLO_COMPLETIONS, 1);
                        sim::thaw_all();
                        state = 2;
                    } else if sim::thread_own_steps(t) - own_at > 16 + 4 * sim::cas_spurious_fired() + 40 {
                        sim::report("C08", "operation-needs-other-threads", &format!("with every other thread paused, T{} made {} own steps inside a channel operation without finishing", t, sim::thread_own_steps(t) - own_at), true);
                    }
                }
                _ => {}
            }
        }));
    }
    let mut tids = Vec::new();
    for n in sends.iter().copied() {
        tids.push(sim::spawn("producer", move || {
            for _ in 0..n {
                do_send(false);
            }
        }));
    }
    for n in recvs.iter().copied() {
        tids.push(sim::spawn("consumer", move || {
            for _ in 0..n {
                do_recv(false);
            }
        }));
    }
    for t in tids {
        sim::join(t);
    }
    let c = &sighook_shim::shm::get().counters;
    let nontrivial = c[E_CAS_REAL_FAIL] > 0 || c[E_CHAN_NESTED] > 0 || c[E_SOLO_COMPLETIONS] > 0 || (prop == "C08" && c[sim::C_CAS_SPUR] > 0);
    if c[E_CHAN_FULL_DISCARD] > 0 {
        sim::count(E_CHAN_POS34, 1);
    }
    finish(nontrivial)
}

// ---------------------------------------------------------------------------------------------
// C08 sweep

fn sweep_run(spec: &RunSpec) -> ! {
    // index layout: state(6) x op(2) x sp index(10) x nested(3) x spur(3) = 1080 ... x4 repeats of
    // the seeded spurious pattern = 4320
    let mut r = spec.run;
    let rep = r % 4;
    r /= 4;
    let spur = [0u32, 30, 60][(r % 3) as usize];
    r /= 3;
    let nested = (r % 3) as u32; // 0 none, 1 send, 2 recv
    r /= 3;
    let idx = 1 + r % 10;
    r /= 10;
    let op_is_send = r % 2 == 0;
    r /= 2;
    let state = r % 6;
    sim::note(&format!(
        "C08 sweep: state {} op {} sp-index {} nested {} spurious {}% rep {}",
        ["empty", "one", "four", "full", "other-thread-frozen-mid-send", "other-thread-frozen-mid-recv"][state as usize],
        if op_is_send { "send" } else { "recv" },
        idx,
        ["none", "send", "recv"][nested as usize],
        spur,
        rep
    ));
    // burn `rep` draws so that the seeded spurious pattern differs between repetitions
    for _ in 0..rep {
        sim::work(2);
    }
    let cfg = Config {
        prop: "C08".into(),
        policy: Policy::Sticky(0),
        silent: false,
        wm: false,
        inject_num: 1,
        inject_den: 1,
        inject_budget: if nested == 0 { 0 } else { 1 },
        max_nest: 1,
        cas_spurious_pct: spur,
        step_budget: 5_000,
        pct_horizon: 50,
    };
    sim::start(cfg);
    sim::set_handler_step_limit_for(120, "C08");
    // Channel::new itself under spurious failures must not panic
    let c = catch_unwind(|| Channel::<Tok>::new());
    match c {
        Ok(c) => w().chan = Some(Arc::new(c)),
        Err(_) => sim::report("C08", "operation-panicked", "Channel::new panicked", true),
    }
    w().nested_kinds = 2;
    let pre = match state {
        0 => 0,
        1 => 1,
        2 => 4,
        3 => 5,
        _ => 2,
    };
    for _ in 0..pre {
        do_send(false);
    }
    // states 4/5: another thread is frozen in the middle of an operation
    if state >= 4 {
        let mid_send = state == 4;
        let t = sim::spawn("frozen-peer", move || {
            if mid_send {
                do_send(false);
            } else {
                do_recv(false);
            }
        });
        // run the peer for 3 own steps (past its first CAS), then freeze it
        sim::run_until_own(t, 3);
        sim::freeze(t);
    }
    let me_ops_before = w().ops.len();
    if nested != 0 {
        let k = nested;
        sim::set_injector(Box::new(move |ctx: &InjectCtx| {
            if w().opstack[ctx.tid].is_empty() {
                return false;
            }
            sim::count(E_CHAN_NESTED, 1);
            sim::enter_handler();
            if k == 1 {
                do_send(true);
            } else {
                do_recv(true);
            }
            sim::exit_handler();
            true
        }));
        sim::set_inject_at(0, sim::own_steps() + idx);
    }
    if op_is_send {
        do_send(false);
    } else {
        do_recv(false);
    }
    let _ = me_ops_before;
    sim::thaw_all();
    let c = &sighook_shim::shm::get().counters;
    let hit = nested == 0 || c[E_CHAN_NESTED] > 0;
    if !hit {
        sim::count(E_SWEEP_OUT_OF_RANGE, 1);
    }
    // let a frozen peer finish so that conservation can be checked
    let n = sim::nthreads();
    for t in 1..n {
        sim::join(t);
    }
    finish(hit && (nested != 0 || spur > 0 || state >= 4))
}

