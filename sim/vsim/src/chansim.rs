use crate::driver::RunSpec;
use crate::props::Prop;
pub const PROPS: &[Prop] = &[];
pub fn run(_spec: &RunSpec) -> ! {
    sighook_shim::sim::harness_error("engine not built yet")
}
