//! itersim: the signal iterators (backend.rs, mod.rs, exfiltrators, self-pipe wake) under
//! concurrent deliveries, nested deliveries on the consumer, add_signal and close.
//! Serves C09 (nothing lost), C10 (nothing invented), C11 (close), and the iterator part of C03.

use std::io::Error;
use std::os::unix::io::AsRawFd;
use std::os::unix::net::UnixStream;
use std::panic::{catch_unwind, AssertUnwindSafe};

use libc::siginfo_t;
use sighook_shim::sim::{self, Config, DeadlockInfo, InjectCtx, Policy, ShimGuard, TState};
use signal_hook::iterator::backend::{Handle, PollResult, SignalDelivery, SignalIterator};
use signal_hook::iterator::exfiltrator::origin::Origin;
use signal_hook::iterator::exfiltrator::{Exfiltrator, SignalOnly, WithOrigin, WithRawSiginfo};
use signal_hook::iterator::SignalsInfo;
use signal_hook::low_level::siginfo::{Cause, Chld, Sent};

use crate::driver::RunSpec;
use crate::props::*;
use crate::util::*;

pub const ITER_REAL: &[&str] = &[
    "src/iterator/backend.rs, src/iterator/mod.rs, exfiltrators, src/low_level/pipe.rs, src/low_level/channel.rs, signal-hook-registry: real code from /repo",
    "real kernel UnixStream socket pairs (never blocked on: the simulator parks the thread instead)",
    "real sigaction dispositions",
];
pub const ITER_STUB: &[&str] = &[
    "thread scheduling (simulator baton)",
    "asynchronous signal arrival (direct call of the kernel-reported disposition at a chosen scheduling point, incl. nested on the consumer)",
    "the async reactor behind poll_signal's readiness callback: a stub doing a real non-blocking 1-byte read and otherwise arming a wake-up on the descriptor (7/8 of the runs); 1/8 of the C09 and 1/4 of the C11 runs drive the REAL signal-hook-tokio Stream on a real current-thread tokio runtime polled by hand (in half of them a second simulated thread turns the I/O driver at arbitrary instants), and 1/64 of the C11 runs are a sequential conformance scenario of the REAL signal-hook-async-std Stream on async-io",
    "1/8 of the C09, C10 and C03 runs drive the REAL signal-hook-mio Signals (v1_0 / v0_8 / v0_7 / v0_6 in turn) registered with a real edge-triggered mio::Poll (real epoll, polled with a zero timeout; the simulator parks the consumer on the epoll descriptor instead of blocking in it)",
];

pub const PROPS: &[Prop] = &[
    Prop {
        id: "C09",
        engine: Engine::Iter,
        level: "exploration",
        sweep_runs: 0,
        quick_runs: 100_000,
        thorough_runs: 3_000_000,
        rule: "consumer in {wait loop, forever(), pending() after readiness, poll_signal with stub reactor} x exfiltrator in {SignalOnly, WithRawSiginfo, WithOrigin}; 1-2 deliverer threads, nested deliveries on the consumer thread, controller doing add_signal and finally close(); oracle evaluated at quiescence (consumer blocked on an empty pipe, nothing in flight). Non-trivial: a delivery overlapped a consumer call (its store or wake landed between the consumer's drain and the end of its scan, or while it was deciding to block). Distinct: by schedule signature.",
        probes: &[
            (E_ITER_STORE_DURING_SCAN, "delivery_overlapped_consumer_call"),
            (E_ITER_QUIESCENT_EVAL, "quiescent_oracle_evaluations"),
            (E_ITER_YIELDS, "values_yielded"),
            (E_ITER_ADD_RACE, "add_signal_overlapped_a_delivery"),
            (C_WAKE_EAGAIN_ALIAS, "wake_found_pipe_full"),
            (E_ITER_FULL_PIPE, "fault:self_pipe_full_at_start"),
            (E_ITER_REACTOR_TURNS, "fault:reactor_turned_by_another_thread"),
            (E_ITER_CB_ERRORS, "fault:readiness_callback_returned_error"),
            (E_ITER_MIO_POLLS, "real_mio_poll_turns"),
            (E_ITER_MIO_REREG, "fault:mio_source_rearmed_between_polls"),
        ],
        real: ITER_REAL,
        stub: ITER_STUB,
        assumptions: &["EINTR is injected only into recv() calls that could have slept (blocking descriptor, no MSG_DONTWAIT), at most twice in a row"],
    },
    Prop {
        id: "C10",
        engine: Engine::Iter,
        level: "exploration",
        sweep_runs: 0,
        quick_runs: 100_000,
        thorough_runs: 3_000_000,
        rule: "same engine with bursts up to 9 deliveries of one signal and deliveries of unwatched signals; at every yield: yields(s) <= deliveries of s begun since add_signal(s) was invoked, s watched; info exfiltrators: record byte-identical to exactly one delivery (by si_value tag), no tag twice, per-signal delivery order. Non-trivial: a burst exceeded the per-signal buffer or a delivery overlapped a consumer call. Distinct: by schedule signature.",
        probes: &[(E_ITER_RECORDS, "info_records_checked"), (E_ITER_BURST_OVERFLOW, "burst_longer_than_buffer"), (E_ITER_YIELDS, "values_yielded"), (E_ITER_STORE_DURING_SCAN, "delivery_overlapped_consumer_call"), (E_ITER_MIO_POLLS, "real_mio_poll_turns")],
        real: ITER_REAL,
        stub: ITER_STUB,
        assumptions: &["WithOrigin carries no per-delivery tag: only signal, pid, uid and cause are compared, and counts"],
    },
    Prop {
        id: "C11",
        engine: Engine::Iter,
        level: "exploration",
        sweep_runs: 0,
        quick_runs: 100_000,
        thorough_runs: 3_000_000,
        rule: "same engine; 1-3 handle clones call close() at seeded instants incl. between the two is_closed loads of one poll_signal call; oracles: is_closed sticky on every handle, consumer returns within 6 further calls, forever() ends, deadlock-after-close verdict, poll contract (Pending only if the readiness callback ran in that call and last answered false). Non-trivial: close() overlapped a consumer call. Distinct: by schedule signature.",
        probes: &[(E_ITER_WAKER_CHANGED, "fault:stream_polled_under_a_different_waker"), (E_ITER_CLOSE_BETWEEN_CHECKS, "close_overlapped_consumer_call"), (E_ITER_PENDING, "poll_returned_pending"), (E_ITER_CLOSE_WHILE_BLOCKED, "close_while_consumer_blocked"), (E_ITER_YIELDS, "values_yielded")],
        real: ITER_REAL,
        stub: ITER_STUB,
        assumptions: &["tokio internals between two scheduling points of signal-hook code run atomically", "the async-io conformance scenario is sequential (its reactor thread is outside the simulator); its only real-time element is a 5 s bound on a wake-up"],
    },
];

pub const C_WAKE_EAGAIN_ALIAS: usize = sim::C_WAKE_EAGAIN;

#[derive(Clone, Copy, PartialEq, Debug)]
enum Mode {
    Wait,
    Forever,
    /// `signals.forever().next()` per item: a fresh infinite iterator for every value
    ForeverRecreate,
    Pending,
    Poll,
    /// the real signal-hook-tokio Stream on a real current-thread tokio runtime, polled by hand
    Tokio,
    /// the real signal-hook-mio `Signals` registered as an event source with a real (edge-triggered)
    /// `mio::Poll`, one of the four supported mio versions per run
    Mio,
}

struct DeliveryRec {
    sig: i32,
    tag: u64,
    begin: u64,
    end: Option<u64>,
    bytes: [u8; 128],
    dispatched: bool,
    /// the instance's action ran for this delivery (it attempted its wake-up write)
    woke: bool,
}

struct YieldRec {
    sig: i32,
    tag: Option<u64>,
    seq: u64,
    tid: usize,
}

struct World {
    seq: u64,
    watched: Vec<(i32, u64, Option<u64>)>, // sig, add invoked, add returned
    unwatched: Vec<i32>,
    deliveries: Vec<DeliveryRec>,
    yields: Vec<YieldRec>,
    in_flight: u32,
    consumer_tid: usize,
    /// the main thread has spawned everything it planned to (only then may a consumer use a
    /// spare thread slot for a second scanner)
    all_spawned: bool,
    consumer_in_call: bool,
    consumer_call_begin: u64,
    consumer_calls_after_close: u32,
    close_invoked: Option<u64>,
    close_returned: Option<u64>,
    closer_active: u32,
    inject_sigs: Vec<i32>,
    mode: Mode,
    exf: u8,
    read_fd: i32,
    cb_ran: bool,
    cb_last: bool,
    armed: bool,
    /// the readiness callback's last answer in this poll_signal call was an (injected) error
    cb_err: bool,
    cb_fault_pct: u32,
    probe_fd: i32,
    wake_stack: Vec<Vec<(u64, u64)>>,
    post_close_calls: u32,
    post_close_kind: u32,
    two_scanners: bool,
    /// fault: every poll of the stream comes with a different waker (the stream moved to another
    /// task, a combinator that wraps the waker); only the latest one must be woken
    waker_change: bool,
}

static mut WORLD: *mut World = std::ptr::null_mut();
fn w() -> &'static mut World {
    unsafe { &mut *WORLD }
}

fn watched_at(x: &World, sig: i32, seq: u64, by_return: bool) -> bool {
    x.watched.iter().any(|(s, inv, ret)| *s == sig && if by_return { ret.map(|r| r < seq).unwrap_or(false) } else { *inv < seq })
}

// ---------------------------------------------------------------------------------------------
// outputs of the three exfiltrators

trait Out {
    fn sig(&self) -> i32;
    fn tag(&self) -> Option<u64>;
    /// Err(description) if this record is not a faithful copy of delivery `d`
    fn faithful(&self, d: &DeliveryRec) -> Result<(), String>;
}

impl Out for libc::c_int {
    fn sig(&self) -> i32 {
        *self
    }
    fn tag(&self) -> Option<u64> {
        None
    }
    fn faithful(&self, _d: &DeliveryRec) -> Result<(), String> {
        Ok(())
    }
}

impl Out for siginfo_t {
    fn sig(&self) -> i32 {
        self.si_signo
    }
    fn tag(&self) -> Option<u64> {
        Some(info_tag(self))
    }
    fn faithful(&self, d: &DeliveryRec) -> Result<(), String> {
        let b = info_bytes(self);
        if b == d.bytes {
            Ok(())
        } else {
            let first = (0..128).find(|i| b[*i] != d.bytes[*i]).unwrap();
            Err(format!("record differs from the delivery's siginfo at byte {} ({:#x} vs {:#x})", first, b[first], d.bytes[first]))
        }
    }
}

impl Out for Origin {
    fn sig(&self) -> i32 {
        self.signal
    }
    fn tag(&self) -> Option<u64> {
        None
    }
    fn faithful(&self, d: &DeliveryRec) -> Result<(), String> {
        // independent reader of the delivery's raw siginfo (Linux layout: si_code at 8, si_pid at
        // 16, si_uid at 20 for kill/sigqueue/tkill/mq and SIGCHLD records)
        let rd = |o: usize| i32::from_ne_bytes([d.bytes[o], d.bytes[o + 1], d.bytes[o + 2], d.bytes[o + 3]]);
        let (code, pid, uid) = (rd(8), rd(16), rd(20) as u32);
        let want_cause = match code {
            0x80 => Cause::Kernel,
            0 => Cause::Sent(Sent::User),
            -6 => Cause::Sent(Sent::TKill),
            -1 => Cause::Sent(Sent::Queue),
            -3 => Cause::Sent(Sent::MesgQ),
            1 if d.sig == libc::SIGCHLD => Cause::Chld(Chld::Exited),
            2 if d.sig == libc::SIGCHLD => Cause::Chld(Chld::Killed),
            3 if d.sig == libc::SIGCHLD => Cause::Chld(Chld::Dumped),
            4 if d.sig == libc::SIGCHLD => Cause::Chld(Chld::Trapped),
            5 if d.sig == libc::SIGCHLD => Cause::Chld(Chld::Stopped),
            6 if d.sig == libc::SIGCHLD => Cause::Chld(Chld::Continued),
            _ => Cause::Unknown,
        };
        let want_process = !matches!(want_cause, Cause::Unknown | Cause::Kernel);
        if self.signal != d.sig {
            return Err(format!("origin signal {} is not the delivered signal {}", self.signal, d.sig));
        }
        if self.cause != want_cause {
            return Err(format!("origin cause {:?}, the delivery's si_code {} means {:?}", self.cause, code, want_cause));
        }
        match (&self.process, want_process) {
            (None, false) => Ok(()),
            (Some(p), true) if p.pid == pid && p.uid == uid => Ok(()),
            (other, _) => Err(format!("origin process {:?}; the delivery's siginfo (si_code {}) {}", other, code, if want_process { format!("names process ({}, {})", pid, uid) } else { "carries no process".to_string() })),
        }
    }
}

fn record_yield<O: Out>(o: &O) {
    let _g = ShimGuard::new();
    let x = w();
    x.seq += 1;
    let seq = x.seq;
    let sig = o.sig();
    sim::count(E_ITER_YIELDS, 1);
    sim::log(UE_YIELD, sig as u64, o.tag().unwrap_or(0));
    // C10: watched only
    if !watched_at(x, sig, seq, false) {
        sim::report("C10", "yielded-unwatched-signal", &format!("the iterator yielded signal {} which it was never asked to watch", sig), false);
    }
    // C10: yields(s) <= deliveries of s begun since it was added
    let ny = x.yields.iter().filter(|y| y.sig == sig).count() + 1;
    let nd = x.deliveries.iter().filter(|d| d.sig == sig && watched_at(x, sig, d.begin + 1, false)).count();
    if ny > nd {
        sim::report(
            "C10",
            "more-yields-than-deliveries",
            &format!("the iterator has yielded {} {} times but only {} deliveries of it have begun since it was added (event {})", sig_name(sig), ny, nd, seq),
            false,
        );
    }
    // C10: info records
    if let Some(tag) = o.tag() {
        sim::count(E_ITER_RECORDS, 1);
        match x.deliveries.iter().position(|d| d.tag == tag && d.sig == sig) {
            None => sim::report("C10", "record-of-no-delivery", &format!("yielded record of {} carries tag {} which no delivery of that signal had", sig_name(sig), tag), false),
            Some(di) => {
                if let Err(e) = o.faithful(&x.deliveries[di]) {
                    sim::report("C10", "record-not-faithful", &format!("yielded record of delivery #{}: {}", di, e), false);
                }
                if x.yields.iter().any(|y| y.tag == Some(tag)) {
                    sim::report("C10", "delivery-yielded-twice", &format!("delivery #{} (tag {}) was yielded twice", di, tag), false);
                }
                // per-signal delivery order: no earlier-yielded record of the same signal may
                // belong to a delivery that began after this one ended
                let end = x.deliveries[di].end.unwrap_or(u64::MAX);
                let me = sim::tid();
                for y in x.yields.iter() {
                    // (order is a per-consumer notion: with two threads draining at once only the
                    // order in which each of them obtained its records is observable)
                    if y.sig == sig && y.tid == me {
                        if let Some(t2) = y.tag {
                            if let Some(d2) = x.deliveries.iter().find(|d| d.tag == t2) {
                                if d2.begin > end {
                                    sim::report("C10", "records-out-of-delivery-order", &format!("record of delivery tag {} (began at {}) was yielded before the record of delivery tag {} which had ended at {}", t2, d2.begin, tag, end), false);
                                }
                            }
                        }
                    }
                }
            }
        }
    } else if x.exf == 2 {
        // no per-delivery tag in an Origin: it must be what an independent reader extracts from
        // the siginfo of at least one delivery of that signal that has begun
        sim::count(E_ITER_RECORDS, 1);
        let mut first_err = None;
        let ok = x.deliveries.iter().filter(|d| d.sig == sig).any(|d| match o.faithful(d) {
            Ok(()) => true,
            Err(e) => {
                first_err.get_or_insert(e);
                false
            }
        });
        if !ok {
            sim::report("C10", "record-not-faithful", &format!("yielded origin of {} matches no delivery of that signal: {}", sig_name(sig), first_err.unwrap_or_else(|| "there was no such delivery".to_string())), false);
        }
    }
    x.yields.push(YieldRec { sig, tag: o.tag(), seq, tid: sim::tid() });
}

// ---------------------------------------------------------------------------------------------
// deliveries

fn do_delivery(sig: i32, nested: bool) {
    let mut info;
    let ctx_dummy = [0u64; 4];
    let idx;
    {
        let _g = ShimGuard::new();
        let x = w();
        x.seq += 1;
        idx = x.deliveries.len();
        info = make_info_code(sig, idx as u64 + 1, SI_CODES[(idx * 5 + sig as usize) % SI_CODES.len()]);
        x.deliveries.push(DeliveryRec { sig, tag: idx as u64 + 1, begin: x.seq, end: None, bytes: info.0, dispatched: false, woke: false });
        x.wake_stack[sim::tid()].push((sim::my_wake_calls(), 0));
        x.in_flight += 1;
        sim::log(UE_DELIVERY_BEGIN, idx as u64, sig as u64);
        if x.consumer_in_call {
            sim::count(E_ITER_STORE_DURING_SCAN, 1);
        }
        if x.watched.iter().any(|(s, _, ret)| *s == sig && ret.is_none()) {
            sim::count(E_ITER_ADD_RACE, 1);
        }
        let _ = nested;
    }
    let disp = sim::deliver(sig, &mut info as *mut RawInfo as *mut siginfo_t, &ctx_dummy as *const _ as *mut libc::c_void);
    {
        let _g = ShimGuard::new();
        let x = w();
        x.seq += 1;
        x.deliveries[idx].end = Some(x.seq);
        x.deliveries[idx].dispatched = matches!(disp, sim::Disposition::Handler(_));
        // wake-up writes attempted by this very delivery (not by deliveries nested inside it)
        let now = sim::my_wake_calls();
        let me = sim::tid();
        let (w0, nested) = x.wake_stack[me].pop().unwrap_or((now, 0));
        let total = now - w0;
        x.deliveries[idx].woke = total > nested && x.unwatched.iter().all(|u| *u != sig);
        if let Some(top) = x.wake_stack[me].last_mut() {
            top.1 += total;
        }
        x.in_flight -= 1;
        sim::log(UE_DELIVERY_END, idx as u64, 0);
    }
}

fn injector() -> Box<dyn FnMut(&InjectCtx) -> bool> {
    Box::new(|_ctx: &InjectCtx| {
        let sig = {
            let _g = ShimGuard::new();
            let x = w();
            let cands: Vec<i32> = x.inject_sigs.iter().copied().filter(|s| !sim::in_handler_for(*s)).collect();
            if cands.is_empty() {
                return false;
            }
            cands[sim::choose(sim::CK_INJECT_WHAT, cands.len() as u32) as usize]
        };
        do_delivery(sig, true);
        true
    })
}

// ---------------------------------------------------------------------------------------------
// consumer

fn call_begin() {
    let _g = ShimGuard::new();
    let x = w();
    x.seq += 1;
    x.consumer_in_call = true;
    x.consumer_call_begin = x.seq;
    if x.close_returned.is_some() {
        x.consumer_calls_after_close += 1;
        if x.consumer_calls_after_close > 6 + x.post_close_calls {
            sim::report("C11", "consumer-does-not-terminate-after-close", &format!("the consumer has made {} calls after close() returned and has still not been told that the instance is closed", x.consumer_calls_after_close), true);
        }
    }
}
fn call_end() {
    let _g = ShimGuard::new();
    let x = w();
    x.seq += 1;
    x.consumer_in_call = false;
    if let Some(c) = x.close_invoked {
        if c > x.consumer_call_begin && x.close_returned.map(|r| r > x.consumer_call_begin).unwrap_or(true) {
            sim::count(E_ITER_CLOSE_BETWEEN_CHECKS, 1);
        }
    }
}

fn check_sticky(h: &Handle, who: &str) {
    let closed_before = w().close_returned.is_some();
    let c = h.is_closed();
    if closed_before && !c {
        let _g = ShimGuard::new();
        sim::report("C11", "is-closed-not-sticky", &format!("is_closed() returned false on {} after close() had returned", who), true);
    }
}

fn consume_signals<E>(mode: Mode, mut s: SignalsInfo<E>)
where
    E: Exfiltrator,
    E::Output: Out + Send + 'static,
{
    let h = s.handle();
    match mode {
        Mode::Wait if w().two_scanners => loop {
            // two batches of the same instance drained on two threads at once (a `Pending` is an
            // owned, Send value): still no delivery may come out twice
            call_begin();
            let b1 = s.wait();
            let b2 = s.pending();
            // a spare thread slot is used only once the main thread has spawned what it planned
            let spawned = if w().all_spawned {
                sim::try_spawn("scanner", move || {
                    for o in b2 {
                        record_yield(&o);
                    }
                })
            } else {
                for o in b2 {
                    record_yield(&o);
                }
                Err(None)
            };
            for o in b1 {
                record_yield(&o);
            }
            match spawned {
                Ok(t) => sim::join(t),
                Err(Some(second)) => second(),
                Err(None) => {}
            }
            call_end();
            check_sticky(&h, "the consumer's handle");
            if s.is_closed() {
                break;
            }
        },
        Mode::Wait => loop {
            call_begin();
            let batch: Vec<E::Output> = s.wait().collect();
            call_end();
            for o in batch.iter() {
                record_yield(o);
            }
            check_sticky(&h, "the consumer's handle");
            if s.is_closed() {
                break;
            }
        },
        Mode::Forever => {
            let mut it = s.forever();
            loop {
                call_begin();
                let n = it.next();
                call_end();
                match n {
                    Some(o) => record_yield(&o),
                    None => {
                        if !h.is_closed() {
                            let _g = ShimGuard::new();
                            sim::report("C11", "forever-ended-while-open", "forever() returned None although the instance is not closed", true);
                        }
                        break;
                    }
                }
            }
        }
        Mode::ForeverRecreate => loop {
            call_begin();
            let n = s.forever().next();
            call_end();
            match n {
                Some(o) => record_yield(&o),
                None => {
                    if !h.is_closed() {
                        let _g = ShimGuard::new();
                        sim::report("C11", "forever-ended-while-open", "forever() returned None although the instance is not closed", true);
                    }
                    break;
                }
            }
        },
        _ => unreachable!(),
    }
    // calls that *start* after close() must return too, however often they are made and
    // whatever the earlier ones consumed
    let extra = w().post_close_calls;
    for k in 0..extra {
        call_begin();
        match (k + w().post_close_kind) % 3 {
            0 => {
                let b: Vec<E::Output> = s.wait().collect();
                call_end();
                for o in b.iter() {
                    record_yield(o);
                }
            }
            1 => {
                let b: Vec<E::Output> = s.pending().collect();
                call_end();
                for o in b.iter() {
                    record_yield(o);
                }
            }
            _ => {
                let n = s.forever().next();
                call_end();
                if let Some(o) = n {
                    record_yield(&o);
                }
            }
        }
        check_sticky(&h, "the consumer's handle");
    }
    {
        let _g = ShimGuard::new();
        if w().close_invoked.is_none() {
            sim::report("C11", "consumer-returned-while-open", "the blocking consumer returned for good although close() was never called", true);
        }
    }
    drop(s);
}

fn consume_delivery<E>(mode: Mode, mut d: SignalDelivery<UnixStream, E>)
where
    E: Exfiltrator,
    E::Output: Out,
{
    let h = d.handle();
    let fd = d.get_read().as_raw_fd();
    match mode {
        Mode::Pending => loop {
            sighook_shim::hook::block_until_readable(fd);
            call_begin();
            let batch: Vec<E::Output> = d.pending().collect();
            call_end();
            for o in batch.iter() {
                record_yield(o);
            }
            check_sticky(&h, "the consumer's handle");
            if h.is_closed() {
                break;
            }
        },
        Mode::Poll => {
            let mut it = SignalIterator::new(d);
            let mut cb = |read: &mut UnixStream| -> Result<bool, Error> {
                // stub reactor: non-blocking 1-byte read; otherwise arm a wake-up on the fd
                let mut b = [0u8; 1];
                sim::sp_user();
                // fault: the caller's reactor fails this readiness query (the callback is the
                // caller's code and may return any io::Error; nothing is armed then)
                let pct = w().cb_fault_pct;
                if pct > 0 && !w().cb_err && sim::coin(sim::CK_FAULT, pct, 100) {
                    let _g = ShimGuard::new();
                    let x = w();
                    x.cb_ran = true;
                    x.cb_last = false;
                    x.armed = false;
                    x.cb_err = true;
                    sim::count(E_ITER_CB_ERRORS, 1);
                    sim::log(UE_CALLBACK, 2, 0);
                    return Err(Error::from(std::io::ErrorKind::Interrupted));
                }
                let r = unsafe { libc::recv(read.as_raw_fd(), b.as_mut_ptr() as *mut _, 1, libc::MSG_DONTWAIT) };
                let _g = ShimGuard::new();
                let x = w();
                x.cb_ran = true;
                x.cb_last = r > 0;
                x.armed = r <= 0;
                x.cb_err = false;
                sim::log(UE_CALLBACK, (r > 0) as u64, 0);
                Ok(r > 0)
            };
            loop {
                {
                    let x = w();
                    x.cb_ran = false;
                    x.cb_last = false;
                    x.armed = false;
                    x.cb_err = false;
                }
                call_begin();
                let r = it.poll_signal(&mut cb);
                call_end();
                match r {
                    PollResult::Signal(o) => {
                        sim::log(UE_POLL, 1, 0);
                        record_yield(&o)
                    }
                    PollResult::Closed => {
                        sim::log(UE_POLL, 3, 0);
                        if !h.is_closed() {
                            let _g = ShimGuard::new();
                            sim::report("C11", "closed-reported-while-open", "poll_signal returned Closed although the instance is not closed", true);
                        }
                        break;
                    }
                    PollResult::Pending => {
                        sim::log(UE_POLL, 2, 0);
                        sim::count(E_ITER_PENDING, 1);
                        let (ran, last, armed) = (w().cb_ran, w().cb_last, w().armed);
                        if w().cb_err {
                            let _g = ShimGuard::new();
                            sim::report(
                                "C11",
                                "pending-without-armed-wakeup",
                                "poll_signal returned Pending although the readiness callback's last answer in that call was an error (not `nothing available`): the caller has armed no wake-up and would never be polled again",
                                false,
                            );
                        }
                        if !ran || last {
                            let _g = ShimGuard::new();
                            sim::report(
                                "C11",
                                "pending-without-armed-wakeup",
                                &format!(
                                    "poll_signal returned Pending although during that call the readiness callback {} (closed: invoked {:?}, returned {:?}): the caller has no armed wake-up and would never be polled again",
                                    if !ran { "was never consulted" } else { "last answered `true`" },
                                    w().close_invoked,
                                    w().close_returned
                                ),
                                false,
                            );
                        }
                        if armed {
                            // the reactor would wake the task when the descriptor becomes readable
                            sighook_shim::hook::block_until_readable(fd);
                        }
                    }
                    PollResult::Err(e) => {
                        // the injected callback error handed through: the caller polls again
                        if !w().cb_err {
                            sim::harness_error(&format!("poll_signal returned an error: {}", e));
                        }
                        sim::log(UE_POLL, 4, 0);
                    }
                }
            }
            drop(it);
        }
        _ => unreachable!(),
    }
}

// ---------------------------------------------------------------------------------------------
// the real tokio adapter under the simulator

struct CountWake(std::sync::atomic::AtomicUsize);
impl std::task::Wake for CountWake {
    fn wake(self: std::sync::Arc<Self>) {
        self.0.fetch_add(1, std::sync::atomic::Ordering::SeqCst);
    }
}

fn consume_tokio<E>(rt: std::sync::Arc<tokio::runtime::Runtime>, mut st: signal_hook_tokio::SignalsInfo<E>, read_fd: i32)
where
    E: Exfiltrator,
    E::Output: Out,
{
    use futures_core::Stream;
    use std::pin::Pin;
    use std::task::{Context, Poll};
    let h = st.handle();
    let cws = [std::sync::Arc::new(CountWake(std::sync::atomic::AtomicUsize::new(0))), std::sync::Arc::new(CountWake(std::sync::atomic::AtomicUsize::new(0)))];
    let wakers = [std::task::Waker::from(cws[0].clone()), std::task::Waker::from(cws[1].clone())];
    let change = w().waker_change;
    let mut npoll = 0usize;
    let _enter = rt.enter();
    loop {
        call_begin();
        // (with the waker-change fault every poll hands over the other waker; a wake-up of the one
        // handed to an earlier poll does not count)
        let cur = if change { npoll % 2 } else { 0 };
        npoll += 1;
        let cw = &cws[cur];
        cw.0.store(0, std::sync::atomic::Ordering::SeqCst);
        if change {
            sim::count(E_ITER_WAKER_CHANGED, 1);
        }
        let r = {
            let mut cx = Context::from_waker(&wakers[cur]);
            Pin::new(&mut st).poll_next(&mut cx)
        };
        call_end();
        match r {
            Poll::Ready(Some(o)) => {
                sim::log(UE_POLL, 1, 0);
                record_yield(&o);
            }
            Poll::Ready(None) => {
                sim::log(UE_POLL, 3, 0);
                if !h.is_closed() {
                    let _g = ShimGuard::new();
                    sim::report("C11", "closed-reported-while-open", "the tokio stream ended although the instance is not closed", true);
                }
                break;
            }
            Poll::Pending => {
                sim::log(UE_POLL, 2, 0);
                sim::count(E_ITER_PENDING, 1);
                // park like a task would: only the waker handed to poll_next can bring us back
                let mut turns_without_wake = 0;
                loop {
                    sim::sp_user();
                    {
                        let _g = ShimGuard::new();
                        rt.block_on(tokio::task::yield_now()); // one non-blocking reactor turn
                    }
                    if cw.0.swap(0, std::sync::atomic::Ordering::SeqCst) > 0 {
                        break;
                    }
                    let readable = {
                        let mut p = libc::pollfd { fd: read_fd, events: libc::POLLIN, revents: 0 };
                        unsafe { libc::poll(&mut p, 1, 0) > 0 }
                    };
                    if readable {
                        turns_without_wake += 1;
                        if turns_without_wake > 3 {
                            let _g = ShimGuard::new();
                            sim::report(
                                "C11",
                                "stream-hangs",
                                &format!(
                                    "signal-hook-tokio: poll_next returned Pending; a wake-up byte is sitting in the self-pipe and the reactor turned {} times, but the task's waker was never woken (no waker was registered by that poll_next): the stream hangs (closed: invoked {:?}, returned {:?})",
                                    turns_without_wake,
                                    w().close_invoked,
                                    w().close_returned
                                ),
                                true,
                            );
                        }
                    } else {
                        sighook_shim::hook::block_until_readable(read_fd);
                    }
                }
            }
        }
    }
    drop(st);
    drop(_enter);
    let _g = ShimGuard::new();
    drop(rt);
}

/// Sequential conformance of the real async-std/async-io adapter: Pending, then a delivery or
/// close(), must wake the waker and the next poll must be Ready.  async-io's reactor runs on its
/// own helper thread, so the only real-time element is a 5 s bound on a wake-up that, on a
/// correct tree, arrives within microseconds; a hang is the violation itself.
fn asyncio_conformance(spec: &RunSpec) -> ! {
    use futures_lite::stream::Stream;
    use std::pin::Pin;
    use std::task::{Context, Poll};
    let close_case = sim::work(2) == 1;
    let pre_delivery = sim::work(2) == 1;
    let exf_raw = sim::work(2) == 1;
    w().waker_change = sim::work(2) == 1;
    sim::note(&format!("async-io adapter conformance: {} after Pending; a delivery before the first poll: {}; exfiltrator {}", if close_case { "close()" } else { "a delivery" }, pre_delivery, if exf_raw { "WithRawSiginfo" } else { "SignalOnly" }));
    let cfg = Config { prop: spec.prop.id.to_string(), ..Config::default() };
    sim::start(cfg);
    let sig = libc::SIGUSR1;
    fn drive<E: Exfiltrator>(mut st: signal_hook_async_std::SignalsInfo<E>, sig: i32, close_case: bool, pre_delivery: bool) -> !
    where
        E::Output: Out,
    {
        let h = st.handle();
        let cw = std::sync::Arc::new(CountWake(std::sync::atomic::AtomicUsize::new(0)));
        let waker = std::task::Waker::from(cw.clone());
        let cw2 = std::sync::Arc::new(CountWake(std::sync::atomic::AtomicUsize::new(0)));
        let waker2 = std::task::Waker::from(cw2.clone());
        let rewake = w().waker_change;
        let use2 = std::cell::Cell::new(false);
        let poll = |st: &mut signal_hook_async_std::SignalsInfo<E>| {
            let mut cx = Context::from_waker(if use2.get() { &waker2 } else { &waker });
            Pin::new(st).poll_next(&mut cx)
        };
        if pre_delivery {
            do_delivery(sig, false);
            // drain: first poll(s) must hand the signal out
            let mut got = false;
            for _ in 0..3 {
                if let Poll::Ready(Some(o)) = poll(&mut st) {
                    record_yield(&o);
                    got = true;
                    break;
                }
                std::thread::sleep(std::time::Duration::from_millis(20));
            }
            if !got {
                sim::report("C09", "signal-lost", "async-std adapter: a delivery made before the first poll was not reported by the first polls", true);
            }
        }
        let mut r = poll(&mut st);
        let mut guard = 0;
        while let Poll::Ready(Some(o)) = r {
            record_yield(&o);
            r = poll(&mut st);
            guard += 1;
            if guard > 10 {
                sim::harness_error("async-io conformance: stream keeps yielding");
            }
        }
        if !matches!(r, Poll::Pending) {
            sim::report("C11", "closed-reported-while-open", "async-std adapter: the stream ended although the instance is open", true);
        }
        sim::mark_nontrivial();
        if rewake {
            // fault: the stream is polled again under a different waker before anything arrives
            // (it moved to another task): from now on only that one has to be woken
            use2.set(true);
            sim::count(E_ITER_WAKER_CHANGED, 1);
            let mut r2 = poll(&mut st);
            while let Poll::Ready(Some(o)) = r2 {
                record_yield(&o);
                r2 = poll(&mut st);
            }
            if !matches!(r2, Poll::Pending) {
                sim::report("C11", "closed-reported-while-open", "async-std adapter: the stream ended although the instance is open", true);
            }
        }
        let cw = if rewake { cw2.clone() } else { cw };
        cw.0.store(0, std::sync::atomic::Ordering::SeqCst);
        if close_case {
            do_close(&h, "the handle");
        } else {
            do_delivery(sig, false);
        }
        let t0 = std::time::Instant::now();
        while cw.0.load(std::sync::atomic::Ordering::SeqCst) == 0 {
            if t0.elapsed().as_secs() >= 5 {
                sim::report(
                    "C11",
                    "stream-hangs",
                    &format!("signal-hook-async-std: poll_next returned Pending, then {} happened, but the task's waker was not woken within 5 s: the stream hangs", if close_case { "close()" } else { "a delivery" }),
                    true,
                );
            }
            std::thread::sleep(std::time::Duration::from_micros(200));
        }
        match poll(&mut st) {
            Poll::Ready(None) if close_case => {}
            Poll::Ready(Some(o)) if !close_case => record_yield(&o),
            other => sim::report(
                if close_case { "C11" } else { "C09" },
                "poll-after-wakeup",
                &format!("async-std adapter: after the wake-up the next poll returned {} instead of {}", match other { Poll::Pending => "Pending", Poll::Ready(None) => "end of stream", _ => "a signal" }, if close_case { "end of stream" } else { "the signal" }),
                true,
            ),
        }
        sim::finish_ok()
    }
    if exf_raw {
        drive(signal_hook_async_std::SignalsInfo::<WithRawSiginfo>::new(&[sig]).expect("async-std Signals"), sig, close_case, pre_delivery)
    } else {
        drive(signal_hook_async_std::SignalsInfo::<SignalOnly>::new(&[sig]).expect("async-std Signals"), sig, close_case, pre_delivery)
    }
}


// ---------------------------------------------------------------------------------------------
// the real mio adapter under the simulator

enum MioOp {
    Poll,
    Pending,
    Add(i32),
    /// the application re-arms the source: `reregister` (false) or `deregister` + `register` (true)
    Rereg(bool),
}
enum MioRes {
    Polled(bool, bool),
    Batch(Vec<libc::c_int>),
    Added(Result<(), Error>),
    Done,
}
#[derive(Clone, Copy)]
struct MioPlan {
    added: Option<i32>,
    add_at: u32,
    rejected: u32,
    /// 0 = never; otherwise the source is re-armed after every poll turn whose number is a multiple
    rereg_every: u32,
    rereg_full: bool,
}
const MIO_SIG: usize = 0;

/// The consumer of a mio event loop: parks until the poller's descriptor reports readiness (the
/// simulator's stand-in for a blocking `poll()`), collects the events (edge-triggered: a readiness
/// is reported once), and on an event of the signal source drains `pending()`.  The adapter has no
/// handle and no close(): the harness ends the loop through a second event source.
fn mio_loop(epfd: i32, plan: MioPlan, mut op: impl FnMut(MioOp) -> MioRes) {
    for _ in 0..plan.rejected {
        let r = catch_unwind(AssertUnwindSafe(|| op(MioOp::Add(libc::SIGKILL))));
        let _g = ShimGuard::new();
        sim::count(E_HIST_REJECTED, 1);
        if r.is_ok() {
            sim::report("C14", "forbidden-accepted", "add_signal(SIGKILL) did not panic", false);
        }
    }
    let mut iter = 0u32;
    let mut stop = false;
    loop {
        if let Some(a) = plan.added {
            if iter == plan.add_at {
                sim::sp_user();
                do_add_with(a, || match op(MioOp::Add(a)) {
                    MioRes::Added(r) => r,
                    _ => unreachable!(),
                });
            }
        }
        iter += 1;
        if stop {
            break;
        }
        sighook_shim::hook::block_until_readable(epfd);
        sim::sp_user();
        let (sig, st) = match op(MioOp::Poll) {
            MioRes::Polled(a, b) => (a, b),
            _ => unreachable!(),
        };
        sim::count(E_ITER_MIO_POLLS, 1);
        if sig {
            call_begin();
            let b = match op(MioOp::Pending) {
                MioRes::Batch(b) => b,
                _ => unreachable!(),
            };
            call_end();
            for o in b.iter() {
                record_yield(o);
            }
        }
        if st {
            stop = true;
        }
        // re-arming the event source is an ordinary thing for a mio application to do (interest or
        // token change, moving the source to another poller); signals delivered before it must still
        // be obtained: as a fresh edge-triggered registration of a readable descriptor reports it,
        // the application simply keeps polling
        if !stop && plan.rereg_every != 0 && iter % plan.rereg_every == 0 {
            sim::sp_user();
            op(MioOp::Rereg(plan.rereg_full));
            sim::count(E_ITER_MIO_REREG, 1);
        }
    }
}

macro_rules! mio_kit {
    ($build:ident, $mio:ident, $ver:ident) => {
        fn $build(list: &[i32], stop_fd: i32, plan: MioPlan) -> Box<dyn FnOnce() + Send> {
            use $mio::{Events, Interest, Poll, Token};
            let poll = Poll::new().expect("mio Poll");
            let mut s = signal_hook_mio::$ver::Signals::new(list.iter()).expect("mio Signals");
            poll.registry().register(&mut s, Token(MIO_SIG), Interest::READABLE).expect("mio register");
            poll.registry().register(&mut $mio::unix::SourceFd(&stop_fd), Token(1), Interest::READABLE).expect("mio register stop");
            Box::new(move || {
                let mut poll = poll;
                let epfd = poll.as_raw_fd();
                let mut events = Events::with_capacity(8);
                mio_loop(epfd, plan, |op| match op {
                    MioOp::Poll => {
                        poll.poll(&mut events, Some(std::time::Duration::from_millis(0))).expect("mio poll");
                        let (mut a, mut b) = (false, false);
                        for e in events.iter() {
                            if e.token() == Token(MIO_SIG) {
                                a = true
                            } else {
                                b = true
                            }
                        }
                        MioRes::Polled(a, b)
                    }
                    MioOp::Pending => MioRes::Batch(s.pending().collect()),
                    MioOp::Add(n) => MioRes::Added(s.add_signal(n)),
                    MioOp::Rereg(full) => {
                        if full {
                            poll.registry().deregister(&mut s).expect("mio deregister");
                            poll.registry().register(&mut s, Token(MIO_SIG), Interest::READABLE).expect("mio register");
                        } else {
                            poll.registry().reregister(&mut s, Token(MIO_SIG), Interest::READABLE).expect("mio reregister");
                        }
                        MioRes::Done
                    }
                });
                drop(s);
                let _g = ShimGuard::new();
                drop(events);
                drop(poll);
            })
        }
    };
}
mio_kit!(mio_build_v1_0, mio_1_0, v1_0);
mio_kit!(mio_build_v0_8, mio_0_8, v0_8);
mio_kit!(mio_build_v0_7, mio_0_7, v0_7);

fn mio_build_v0_6(list: &[i32], stop_fd: i32, plan: MioPlan) -> Box<dyn FnOnce() + Send> {
    use mio_0_6::{Events, Poll, PollOpt, Ready, Token};
    let poll = Poll::new().expect("mio Poll");
    let s = signal_hook_mio::v0_6::Signals::new(list.iter()).expect("mio Signals");
    poll.register(&s, Token(MIO_SIG), Ready::readable(), PollOpt::edge()).expect("mio register");
    poll.register(&mio_0_6::unix::EventedFd(&stop_fd), Token(1), Ready::readable(), PollOpt::edge()).expect("mio register stop");
    Box::new(move || {
        let poll = poll;
        let mut s = s;
        let epfd = poll.as_raw_fd();
        let mut events = Events::with_capacity(8);
        mio_loop(epfd, plan, |op| match op {
            MioOp::Poll => {
                poll.poll(&mut events, Some(std::time::Duration::from_millis(0))).expect("mio poll");
                let (mut a, mut b) = (false, false);
                for e in events.iter() {
                    if e.token() == Token(MIO_SIG) {
                        a = true
                    } else {
                        b = true
                    }
                }
                MioRes::Polled(a, b)
            }
            MioOp::Pending => MioRes::Batch(s.pending().collect()),
            MioOp::Add(n) => MioRes::Added(s.add_signal(n)),
            MioOp::Rereg(full) => {
                if full {
                    poll.deregister(&s).expect("mio deregister");
                    poll.register(&s, Token(MIO_SIG), Ready::readable(), PollOpt::edge()).expect("mio register");
                } else {
                    poll.reregister(&s, Token(MIO_SIG), Ready::readable(), PollOpt::edge()).expect("mio reregister");
                }
                MioRes::Done
            }
        });
        drop(s);
        let _g = ShimGuard::new();
        drop(events);
        drop(poll);
    })
}

// ---------------------------------------------------------------------------------------------

fn classify(info: &DeadlockInfo) -> (String, String, String) {
    let x = w();
    let blocked = matches!(info.states.get(x.consumer_tid).map(|s| s.0), Some(TState::BlockedFd(_)));
    if blocked && x.close_returned.is_some() {
        return ("C11".into(), "consumer-blocked-after-close".into(), "close() had returned but the consumer is still blocked on the self-pipe".into());
    }
    if blocked {
        let missing = unreported(x);
        return ("C09".into(), "consumer-blocked-forever".into(), format!("the consumer is blocked on the self-pipe and nobody is left to wake it; unreported deliveries: {:?}", missing));
    }
    ("C18".into(), if info.livelock { "livelock".into() } else { "deadlock".into() }, String::new())
}

fn unreported(x: &World) -> Vec<String> {
    let mut v = Vec::new();
    for (i, d) in x.deliveries.iter().enumerate() {
        if d.end.is_none() {
            continue;
        }
        // (a delivery that found the default/ignore disposition is an obligation too when add_signal
        // had returned before it began: the library's handler, once installed, is never uninstalled)
        if !d.dispatched && !watched_at(x, d.sig, d.begin, true) {
            continue;
        }
        // an obligation: the signal was watched (add_signal had returned) when the delivery began,
        // or the instance's own action demonstrably ran for it (it attempted its wake-up write)
        if !watched_at(x, d.sig, d.begin, true) && !d.woke {
            continue;
        }
        if !x.yields.iter().any(|y| y.sig == d.sig && y.seq > d.begin) {
            v.push(format!("delivery #{} of {} (events {}..{})", i, sig_name(d.sig), d.begin, d.end.unwrap()));
        }
    }
    v
}

/// C09 at quiescence: consumer blocked on an empty pipe, nothing in flight.
fn quiescent_oracle() {
    let _g = ShimGuard::new();
    let x = w();
    sim::count(E_ITER_QUIESCENT_EVAL, 1);
    sim::log(UE_CHECK, 9, 0);
    if x.in_flight != 0 {
        sim::harness_error("quiescent oracle evaluated with a delivery in flight");
    }
    let st = sim::thread_state(x.consumer_tid);
    match st {
        TState::BlockedFd(_) => {
            let missing = unreported(x);
            if !missing.is_empty() {
                sim::report(
                    "C09",
                    "signal-lost",
                    &format!("the consumer is {} while these deliveries of watched signals were never reported after they happened: {:?}", if x.mode == Mode::Mio { "parked in the mio poller with no readiness event outstanding" } else { "blocked on the empty self-pipe (no wake-up outstanding)" }, missing),
                    true,
                );
            }
        }
        TState::Finished => {}
        other => sim::harness_error(&format!("quiescence reached with the consumer in state {:?}", other)),
    }
}

fn do_close(h: &Handle, who: &str) {
    {
        let _g = ShimGuard::new();
        let x = w();
        x.seq += 1;
        if x.close_invoked.is_none() {
            x.close_invoked = Some(x.seq);
        }
        x.closer_active += 1;
        sim::log(UE_CLOSE, 0, 0);
        if matches!(sim::thread_state(x.consumer_tid), TState::BlockedFd(_)) {
            sim::count(E_ITER_CLOSE_WHILE_BLOCKED, 1);
        }
    }
    if catch_unwind(AssertUnwindSafe(|| h.close())).is_err() {
        let _g = ShimGuard::new();
        sim::report("C11", "close-panicked", &format!("close() panicked: {}", sighook_shim::shm::get_str(&sighook_shim::shm::get().panic_msg)), true);
    }
    {
        let _g = ShimGuard::new();
        let x = w();
        x.seq += 1;
        if x.close_returned.is_none() {
            x.close_returned = Some(x.seq);
        }
        x.closer_active -= 1;
        sim::log(UE_CLOSE, 1, 0);
    }
    check_sticky(h, who);
}

fn do_add(h: &Handle, sig: i32) {
    do_add_with(sig, || h.add_signal(sig))
}

fn do_add_with(sig: i32, f: impl FnOnce() -> Result<(), Error>) {
    {
        let _g = ShimGuard::new();
        let x = w();
        x.seq += 1;
        if !x.watched.iter().any(|e| e.0 == sig) {
            x.watched.push((sig, x.seq, None));
            x.inject_sigs.push(sig);
        } else {
            sim::count(E_CONCURRENT_ADD, 1);
        }
    }
    let r = catch_unwind(AssertUnwindSafe(f));
    let _g = ShimGuard::new();
    let x = w();
    x.seq += 1;
    match r {
        Ok(Ok(())) => {
            let seq = x.seq;
            for e in x.watched.iter_mut() {
                if e.0 == sig && e.2.is_none() {
                    e.2 = Some(seq);
                }
            }
        }
        Ok(Err(e)) => sim::report("C12", "add-signal-failed", &format!("add_signal({}) of a valid signal returned an error: {}", sig, e), true),
        Err(_) => sim::report("C12", "add-signal-panicked", &format!("add_signal({}) of a valid signal panicked (two handles adding the same signal concurrently?): {}", sig, sighook_shim::shm::get_str(&sighook_shim::shm::get().panic_msg)), true),
    }
}

/// Fault: a documented, caught panic of add_signal (forbidden signal) on this handle.
fn do_rejected_add(h: &Handle) {
    let r = catch_unwind(AssertUnwindSafe(|| h.add_signal(libc::SIGKILL)));
    let _g = ShimGuard::new();
    sim::count(E_HIST_REJECTED, 1);
    if r.is_ok() {
        sim::report("C14", "forbidden-accepted", "add_signal(SIGKILL) did not panic", false);
    }
}

enum Inst {
    TOnly(std::sync::Arc<tokio::runtime::Runtime>, signal_hook_tokio::SignalsInfo<SignalOnly>, i32),
    TRaw(std::sync::Arc<tokio::runtime::Runtime>, signal_hook_tokio::SignalsInfo<WithRawSiginfo>, i32),
    TOrigin(std::sync::Arc<tokio::runtime::Runtime>, signal_hook_tokio::SignalsInfo<WithOrigin>, i32),
    SOnly(SignalsInfo<SignalOnly>),
    SRaw(SignalsInfo<WithRawSiginfo>),
    SOrigin(SignalsInfo<WithOrigin>),
    DOnly(SignalDelivery<UnixStream, SignalOnly>),
    DRaw(SignalDelivery<UnixStream, WithRawSiginfo>),
    DOrigin(SignalDelivery<UnixStream, WithOrigin>),
}

pub fn run(spec: &RunSpec) -> ! {
    let prop = spec.prop.id;
    let world = Box::new(World {
        seq: 0,
        watched: Vec::new(),
        unwatched: Vec::new(),
        deliveries: Vec::with_capacity(64),
        yields: Vec::with_capacity(64),
        in_flight: 0,
        consumer_tid: 1,
        all_spawned: false,
        consumer_in_call: false,
        consumer_call_begin: 0,
        consumer_calls_after_close: 0,
        close_invoked: None,
        close_returned: None,
        closer_active: 0,
        inject_sigs: Vec::new(),
        mode: Mode::Wait,
        exf: 0,
        read_fd: -1,
        cb_ran: false,
        cb_last: false,
        armed: false,
        cb_err: false,
        cb_fault_pct: 0,
        probe_fd: -1,
        wake_stack: (0..sim::MAX_THREADS).map(|_| Vec::with_capacity(8)).collect(),
        post_close_calls: 0,
        post_close_kind: 0,
        two_scanners: false,
        waker_change: false,
    });
    unsafe { WORLD = Box::into_raw(world) };
    let sh = sighook_shim::shm::get();
    // a memory fault / use of freed memory in an iterator run: released state was touched (C01),
    // a rejected add did not leave the instance as before (C12), otherwise a channel cell (C07)
    sighook_shim::shm::put_str(&mut sh.crash_prop, if prop == "C12" || prop == "C01" { prop } else { "C07" });

    // ---- scenario
    // a slice of the C09-C11 runs drives the real async adapters instead of the stub reactor
    let adapter_tokio = ((prop == "C11" || prop == "C09" || prop == "C03") && spec.run % 8 == 7) || (prop == "C11" && spec.run % 8 == 3);
    if prop == "C11" && spec.run % 64 == 6 {
        w().watched.push((libc::SIGUSR1, 0, Some(0)));
        w().consumer_tid = 0;
        asyncio_conformance(spec);
    }
    let mode = [Mode::Wait, Mode::Forever, Mode::Pending, Mode::Poll][sim::work(4) as usize];
    let mode = if mode == Mode::Forever && sim::work(2) == 0 { Mode::ForeverRecreate } else { mode };
    {
        let x = w();
        x.post_close_calls = sim::work(4);
        x.post_close_kind = sim::work(3);
        x.two_scanners = prop == "C10" && sim::work(3) == 0;
    }
    let mode = if prop == "C11" && sim::work(2) == 0 { Mode::Poll } else { mode };
    let mode = if adapter_tokio { Mode::Tokio } else { mode };
    // ... and another slice the real mio adapter on a real edge-triggered poller
    let adapter_mio = (prop == "C09" || prop == "C10" || prop == "C03") && spec.run % 8 == 5;
    let mode = if adapter_mio { Mode::Mio } else { mode };
    // C12's concurrent slice needs the harness-owned pipe (clean-up probe)
    let mode = if prop == "C12" || prop == "C01" { [Mode::Pending, Mode::Poll][(spec.run / 8 % 2) as usize] } else { mode };
    let exf = sim::work(3) as u8;
    // (the mio adapter is an event source only with the plain exfiltrator)
    let exf = if mode == Mode::Mio { 0 } else { exf };
    // every fourth run draws from the edges of the signal-number range (lowest, highest classic,
    // first and last real-time signal), where table bounds live
    let mut pool: Vec<i32> = if sim::work(4) == 0 { vec![libc::SIGHUP, libc::SIGSYS, libc::SIGRTMIN(), libc::SIGRTMAX() - 1, libc::SIGRTMAX(), libc::SIGUSR1] } else { SIGS.to_vec() };
    let nw = 1 + sim::work(2) as usize;
    let mut initial = Vec::new();
    for _ in 0..nw {
        let i = sim::work(pool.len() as u32) as usize;
        initial.push(pool.remove(i));
    }
    // (C11 quantifies over close() racing everything a handle can do: more add_signal there)
    let added: Option<i32> = if sim::work(3) < (if prop == "C11" { 2 } else { 1 }) { Some(pool.remove(sim::work(pool.len() as u32) as usize)) } else { None };
    let unwatched: Option<i32> = if sim::work(3) == 0 { Some(pool.remove(sim::work(pool.len() as u32) as usize)) } else { None };
    let ndel = 1 + sim::work(2) as usize;
    // the list handed to the constructor may name a signal twice (documented: a no-op)
    let mut ctor_list = initial.clone();
    if sim::work(6) == 0 {
        let d = initial[sim::work(initial.len() as u32) as usize];
        ctor_list.insert(sim::work(ctor_list.len() as u32 + 1) as usize, d);
    }
    let mut all: Vec<i32> = initial.clone();
    if let Some(a) = added {
        all.push(a);
    }
    if let Some(u) = unwatched {
        all.push(u);
    }
    let burst = prop == "C10" && sim::work(2) == 0;
    let mut dels: Vec<Vec<i32>> = Vec::new();
    for _ in 0..ndel {
        let n = if burst { 5 + sim::work(5) as usize } else { 1 + sim::work(if spec.tier == Tier::Thorough { 7 } else { 4 }) as usize };
        let bs = all[sim::work(all.len() as u32) as usize];
        dels.push((0..n).map(|_| if burst && sim::work(4) != 0 { bs } else { all[sim::work(all.len() as u32) as usize] }).collect());
    }
    let nclosers = if prop == "C11" { 1 + sim::work(3) as usize } else { 1 };
    let concurrent_add = added.is_some() && sim::work(2) == 0;
    let rejected_add = sim::work(4) < (if prop == "C12" { 2 } else { 1 });
    let rejected_times = 1 + sim::work(3);
    // close (and the drop of the instance that follows) while deliveries are still running
    let early_close = (prop == "C11" && sim::work(3) != 0) || ((prop == "C03" || prop == "C01") && sim::work(2) == 0);
    let prefill = sim::work(4);
    let full_pipe = mode != Mode::Tokio && mode != Mode::Mio && sim::work(8) == 0;
    let reactor_thread = sim::work(2) == 0;
    let construct_inject = mode != Mode::Tokio && sim::work(4) == 0;
    let policy = match sim::work(8) {
        0 | 1 => Policy::Uniform,
        2 => Policy::Sticky(5),
        3 => Policy::Sticky(20),
        4 => Policy::Sticky(50),
        5 => Policy::Pct(0),
        6 => Policy::Pct(1),
        _ => Policy::Pct(2),
    };
    let inj = [(0u32, 1u32), (1, 30), (1, 10), (1, 4)][sim::work(4) as usize];
    let cfg = Config {
        prop: prop.to_string(),
        policy,
        silent: sim::work(4) != 0,
        // C09-C11 quantify over interleavings, not over weak-memory outcomes: a stale Relaxed load of
        // the channel's free-slot word may legally (C11) discard a record although slots are free,
        // which C06 excuses (happens-before form) and C09 does not talk about.  SC runs only.
        wm: { let _ = sim::work(6); false },
        inject_num: inj.0,
        inject_den: inj.1,
        inject_budget: if inj.0 == 0 { 0 } else { 1 + sim::work(4) },
        max_nest: 2,
        cas_spurious_pct: [0, 0, 20][sim::work(3) as usize],
        step_budget: 60_000,
        pct_horizon: 300,
    };
    sim::note(&format!(
        "consumer {:?} exfiltrator {} watched {:?} added-later {:?} unwatched {:?} deliverers {:?} closers {} early-close {} prefill {} policy {:?} silent {} wm {} inject {}/{} budget {}",
        mode,
        ["SignalOnly", "WithRawSiginfo", "WithOrigin"][exf as usize],
        initial.iter().map(|s| sig_name(*s)).collect::<Vec<_>>(),
        added.map(sig_name),
        unwatched.map(sig_name),
        dels.iter().map(|d| d.iter().map(|s| sig_name(*s)).collect::<Vec<_>>()).collect::<Vec<_>>(),
        nclosers,
        early_close,
        prefill,
        cfg.policy,
        cfg.silent,
        cfg.wm,
        cfg.inject_num,
        cfg.inject_den,
        cfg.inject_budget
    ));
    {
        let x = w();
        x.mode = mode;
        x.exf = exf;
        for s in initial.iter() {
            // (the constructor's add_signal calls are invoked at event 0 and return when the
            // constructor does: stamped below)
            x.watched.push((*s, 0, None));
            x.inject_sigs.push(*s);
        }
        if let Some(u) = unwatched {
            x.unwatched.push(u);
            x.inject_sigs.push(u);
        }
    }
    sim::start(cfg);
    sim::set_handler_step_limit(400);
    sim::set_deadlock_classifier(Box::new(classify));
    // the consumer's calls (wait/pending/forever/poll) never panic on a correct tree; the only
    // panics reachable from them are the channel's internal expects
    sim::set_thread_panic_prop("C08");
    // ... and wait()/forever() giving up on an error of the self-pipe read ("Unexpected error"):
    // the consumer is gone and never obtains the signals delivered from then on
    sim::add_thread_panic_rule("Unexpected error", "C09");
    // fault at the system-call seam: the blocking self-pipe read is interrupted (EINTR) now and then
    w().cb_fault_pct = [0, 0, 10, 25][sim::work(4) as usize];
    sim::set_recv_eintr_pct([0, 0, 10, 30][sim::work(4) as usize]);

    // ---- set-up (thread 0, sequential)
    if let Some(u) = unwatched {
        unsafe { signal_hook_registry::register(u, || ()).expect("register unwatched") };
    }
    // in a quarter of the runs signals already arrive (nested, on this thread) while the instance
    // is being constructed: between the registration of a listed signal and the constructor's return
    if construct_inject {
        sim::set_injector(injector());
    }
    if mode == Mode::Mio {
        // ---- the real mio adapter: its own thread structure (no handle, no close())
        let ver = sim::work(4);
        let plan = MioPlan { added, add_at: sim::work(3), rejected: if rejected_add { rejected_times } else { 0 }, rereg_every: [0, 0, 1, 2][sim::work(4) as usize], rereg_full: sim::work(2) == 0 };
        let (stop_rd, stop_wr) = UnixStream::pair().expect("socketpair");
        let build = [mio_build_v1_0, mio_build_v0_8, mio_build_v0_7, mio_build_v0_6][ver as usize];
        sim::note(&format!("mio adapter {}", ["v1_0", "v0_8", "v0_7", "v0_6"][ver as usize]));
        let body = build(&ctor_list, stop_rd.as_raw_fd(), plan);
        {
            let x = w();
            x.seq += 1;
            let now = x.seq;
            for e in x.watched.iter_mut() {
                if e.2.is_none() {
                    e.2 = Some(now);
                }
            }
        }
        sim::set_injector(injector());
        let consumer = sim::spawn("consumer", move || {
            body();
            drop(stop_rd);
        });
        w().consumer_tid = consumer;
        sim::set_pipe_consumer(consumer);
        let mut tids = Vec::new();
        for d in dels.into_iter() {
            tids.push(sim::spawn("deliverer", move || {
                for s in d.iter() {
                    sim::sp_user();
                    do_delivery(*s, false);
                }
            }));
        }
        let controller = sim::spawn("controller", move || {
            if !early_close {
                sim::wait_quiescent();
                sim::set_stop_inject(true);
                quiescent_oracle();
            }
            sim::sp_user();
            let _g = ShimGuard::new();
            unsafe { libc::send(stop_wr.as_raw_fd(), b"S".as_ptr() as *const _, 1, libc::MSG_DONTWAIT | libc::MSG_NOSIGNAL) };
            drop(stop_wr);
        });
        w().all_spawned = true;
        for t in tids {
            sim::join(t);
        }
        sim::join(controller);
        sim::join(consumer);
        let _g = ShimGuard::new();
        let c = &sighook_shim::shm::get().counters;
        if c[E_ITER_STORE_DURING_SCAN] > 0 || (prop == "C10" && burst) {
            sim::mark_nontrivial();
        }
        sim::finish_ok()
    }
    let with_pipe = matches!(mode, Mode::Pending | Mode::Poll);
    let mut tokio_rt: Option<std::sync::Arc<tokio::runtime::Runtime>> = None;
    let inst: Inst = if mode == Mode::Tokio {
        w().waker_change = sim::work(2) == 0;
        let rt = {
            let _g = ShimGuard::new();
            std::sync::Arc::new(tokio::runtime::Builder::new_current_thread().enable_io().build().expect("tokio runtime"))
        };
        tokio_rt = Some(rt.clone());
        // the adapter's socket pair gets the two lowest free descriptor numbers: learn them
        let (a, b) = UnixStream::pair().expect("socketpair");
        let read_fd = a.as_raw_fd();
        drop(a);
        drop(b);
        w().read_fd = read_fd;
        let _e = rt.enter();
        let i = match exf {
            0 => {
                let s = signal_hook_tokio::SignalsInfo::<SignalOnly>::new(ctor_list.iter()).expect("tokio Signals");
                drop(_e);
                Inst::TOnly(rt, s, read_fd)
            }
            1 => {
                let s = signal_hook_tokio::SignalsInfo::<WithRawSiginfo>::new(ctor_list.iter()).expect("tokio Signals");
                drop(_e);
                Inst::TRaw(rt, s, read_fd)
            }
            _ => {
                let s = signal_hook_tokio::SignalsInfo::<WithOrigin>::new(ctor_list.iter()).expect("tokio Signals");
                drop(_e);
                Inst::TOrigin(rt, s, read_fd)
            }
        };
        i
    } else if with_pipe {
        let (rd, wr) = UnixStream::pair().expect("socketpair");
        rd.set_nonblocking(true).ok();
        w().probe_fd = unsafe { libc::dup(rd.as_raw_fd()) };
        for _ in 0..prefill {
            unsafe { libc::send(wr.as_raw_fd(), b"P".as_ptr() as *const _, 1, libc::MSG_DONTWAIT) };
        }
        if full_pipe {
            // fault: the self-pipe is completely full when the deliveries start (a consumer that
            // has not been scheduled for a long time)
            let _g = ShimGuard::new();
            fill_fd(wr.as_raw_fd());
            sim::count(E_ITER_FULL_PIPE, 1);
        }
        w().read_fd = rd.as_raw_fd();
        match exf {
            0 => Inst::DOnly(SignalDelivery::with_pipe(rd, wr, SignalOnly::default(), ctor_list.iter()).expect("with_pipe")),
            1 => Inst::DRaw(SignalDelivery::with_pipe(rd, wr, WithRawSiginfo::default(), ctor_list.iter()).expect("with_pipe")),
            _ => Inst::DOrigin(SignalDelivery::with_pipe(rd, wr, WithOrigin::default(), ctor_list.iter()).expect("with_pipe")),
        }
    } else {
        // the instance's socket pair gets the two lowest free descriptor numbers: learn them
        let (a, b) = UnixStream::pair().expect("socketpair");
        let (guess_rd, guess_wr) = (a.as_raw_fd(), b.as_raw_fd());
        drop(a);
        drop(b);
        let i = match exf {
            0 => Inst::SOnly(SignalsInfo::<SignalOnly>::new(ctor_list.iter()).expect("Signals::new")),
            1 => Inst::SRaw(SignalsInfo::<WithRawSiginfo>::new(ctor_list.iter()).expect("Signals::new")),
            _ => Inst::SOrigin(SignalsInfo::<WithOrigin>::new(ctor_list.iter()).expect("Signals::new")),
        };
        if full_pipe {
            let _g = ShimGuard::new();
            // only if the guess is right: the two numbers are a connected pair, wr -> rd
            let mut p = libc::pollfd { fd: guess_rd, events: libc::POLLIN, revents: 0 };
            let empty_before = unsafe { libc::poll(&mut p, 1, 0) } == 0;
            let sent = unsafe { libc::send(guess_wr, b"P".as_ptr() as *const _, 1, libc::MSG_DONTWAIT | libc::MSG_NOSIGNAL) } == 1;
            let mut p = libc::pollfd { fd: guess_rd, events: libc::POLLIN, revents: 0 };
            let readable_after = unsafe { libc::poll(&mut p, 1, 0) } == 1 && p.revents & libc::POLLIN != 0;
            if empty_before && sent && readable_after {
                fill_fd(guess_wr);
                sim::count(E_ITER_FULL_PIPE, 1);
            }
        }
        i
    };
    let handle: Handle = match &inst {
        Inst::TOnly(_, s, _) => s.handle(),
        Inst::TRaw(_, s, _) => s.handle(),
        Inst::TOrigin(_, s, _) => s.handle(),
        Inst::SOnly(s) => s.handle(),
        Inst::SRaw(s) => s.handle(),
        Inst::SOrigin(s) => s.handle(),
        Inst::DOnly(d) => d.handle(),
        Inst::DRaw(d) => d.handle(),
        Inst::DOrigin(d) => d.handle(),
    };
    {
        // the constructor has returned: its add_signal calls are complete
        let x = w();
        x.seq += 1;
        let now = x.seq;
        for e in x.watched.iter_mut() {
            if e.2.is_none() {
                e.2 = Some(now);
            }
        }
    }
    sim::set_injector(injector());

    // ---- threads
    let ndel_planned = dels.len();
    let consumer = sim::spawn("consumer", move || match inst {
        Inst::TOnly(rt, s, fd) => consume_tokio(rt, s, fd),
        Inst::TRaw(rt, s, fd) => consume_tokio(rt, s, fd),
        Inst::TOrigin(rt, s, fd) => consume_tokio(rt, s, fd),
        Inst::SOnly(s) => consume_signals(mode, s),
        Inst::SRaw(s) => consume_signals(mode, s),
        Inst::SOrigin(s) => consume_signals(mode, s),
        Inst::DOnly(d) => consume_delivery(mode, d),
        Inst::DRaw(d) => consume_delivery(mode, d),
        Inst::DOrigin(d) => consume_delivery(mode, d),
    });
    w().consumer_tid = consumer;
    sim::set_pipe_consumer(consumer);
    let mut tids = Vec::new();
    if let Some(rt) = tokio_rt.take() {
        // fault: the I/O driver is turned by another thread (as in a multi-threaded runtime, or
        // when the stream is consumed by a foreign executor) at arbitrary instants, also in the
        // middle of the consumer's poll_next
        let planned = 3 + ndel_planned + concurrent_add as usize + (nclosers - 1);
        if reactor_thread && planned < sim::MAX_THREADS {
            let turns = 2 + sim::work(11);
            tids.push(sim::spawn("reactor", move || {
                for _ in 0..turns {
                    sim::sp_user();
                    let _g = ShimGuard::new();
                    rt.block_on(tokio::task::yield_now());
                    sim::count(E_ITER_REACTOR_TURNS, 1);
                }
                let _g = ShimGuard::new();
                drop(rt);
            }));
        } else {
            let _g = ShimGuard::new();
            drop(rt);
        }
    }
    for d in dels.into_iter() {
        tids.push(sim::spawn("deliverer", move || {
            for s in d.iter() {
                sim::sp_user();
                do_delivery(*s, false);
            }
        }));
    }
    let h2 = handle.clone();
    if concurrent_add {
        let h3 = handle.clone();
        let a = added.unwrap();
        tids.push(sim::spawn("adder", move || {
            sim::sp_user();
            do_add(&h3, a);
        }));
    }
    let controller = sim::spawn("controller", move || {
        if rejected_add {
            // (more than once: a retried refusal must not disturb what a concurrent reader holds)
            for _ in 0..rejected_times {
                do_rejected_add(&h2);
            }
        }
        if let Some(a) = added {
            sim::sp_user();
            do_add(&h2, a);
        }
        if !early_close {
            sim::wait_quiescent();
            sim::set_stop_inject(true);
            quiescent_oracle();
        }
        do_close(&h2, "the controller's handle");
    });
    for k in 1..nclosers {
        let hk = handle.clone();
        // an extra closer acts early, or at any moment of the other threads' (long) calls
        let delay = if sim::work(2) == 0 { k as u32 * 3 } else { sim::work(160) };
        tids.push(sim::spawn("closer", move || {
            for _ in 0..delay {
                sim::sp_user();
            }
            if !early_close {
                // wait until the controller has evaluated the oracle
                while w().close_invoked.is_none() {
                    sim::wait_quiescent();
                }
            }
            do_close(&hk, "a closer's handle");
        }));
    }
    w().all_spawned = true;
    drop(handle);
    for t in tids {
        sim::join(t);
    }
    sim::join(controller);
    sim::join(consumer);

    // ---- after the instance and every handle are gone: no registration of the instance is left
    // (a delivery of a formerly watched signal writes nothing into its pipe)
    if w().probe_fd >= 0 {
        sim::set_stop_inject(true);
        let sigs: Vec<i32> = w().watched.iter().map(|e| e.0).collect();
        drain_fd(w().probe_fd);
        for s in sigs {
            do_delivery(s, false);
            let n = drain_fd(w().probe_fd);
            if n != 0 {
                let _g = ShimGuard::new();
                let msg = format!("after the instance and all its handles were dropped a delivery of {} still wrote {} byte(s) into its self-pipe: a registration was left behind (its action still runs, its captures are never released)", sig_name(s), n);
                sim::report("C01", "action-survives-drop-of-owner", &msg, false);
                sim::report("C12", "registration-leaked", &msg, true);
            }
        }
    }
    // ---- nothing may be yielded for deliveries that never happened (checked at each yield);
    // summary probes
    let _g = ShimGuard::new();
    let x = w();
    let c = &sighook_shim::shm::get().counters;
    if x.deliveries.iter().filter(|d| d.dispatched).count() > 5 && burst {
        sim::count(E_ITER_BURST_OVERFLOW, 1);
    }
    let nontrivial = match prop {
        "C09" | "C03" => c[E_ITER_STORE_DURING_SCAN] > 0,
        "C10" => c[E_ITER_STORE_DURING_SCAN] > 0 || burst,
        "C11" => c[E_ITER_CLOSE_BETWEEN_CHECKS] > 0 || c[E_ITER_CLOSE_WHILE_BLOCKED] > 0,
        "C12" | "C01" => c[E_CONCURRENT_ADD] > 0 || c[E_HIST_REJECTED] > 0,
        _ => true,
    };
    if nontrivial {
        sim::mark_nontrivial();
    }
    sim::finish_ok()
}
