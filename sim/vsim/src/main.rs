//! vsim: deterministic-simulation checks for signal-hook.
//!
//!   vsim check <ID> <quick|thorough>     run a property check (VERIF_SEED, VERIF_JOBS, VERIF_RUNS)
//!   vsim replay <file>                   re-run a replay file; prints the VIOLATION again
//!   vsim one <ID> <tier> <seed> <run>    run a single simulated run and dump its event log
//!   vsim determinism <ID> <tier> <n>     run n runs twice each and diff fingerprints

use sighook_shim::alloc::SimAlloc;

#[global_allocator]
static ALLOC: SimAlloc = SimAlloc;

mod chansim;
mod driver;
mod histsim;
mod itersim;
mod lin;
mod props;
mod regsim;
mod util;

fn usage() -> ! {
    eprintln!("usage: vsim check <ID> <quick|thorough> | replay <file> | one <ID> <tier> <seed> <run> | determinism <ID> <tier> <n>");
    std::process::exit(2)
}

fn main() {
    let args: Vec<String> = std::env::args().collect();
    if args.len() < 2 {
        usage();
    }
    let code = match args[1].as_str() {
        "check" if args.len() >= 4 => driver::cmd_check(&args[2], &args[3]),
        "replay" if args.len() >= 3 => driver::cmd_replay(&args[2]),
        "one" if args.len() >= 6 => driver::cmd_one(&args[2], &args[3], args[4].parse().unwrap(), args[5].parse().unwrap()),
        "determinism" if args.len() >= 5 => driver::cmd_determinism(&args[2], &args[3], args[4].parse().unwrap()),
        _ => usage(),
    };
    std::process::exit(code);
}
