//! vsim: deterministic-simulation checks for signal-hook.
//!
//!   vsim check <ID> <quick|thorough>     run a property check (VERIF_SEED, VERIF_JOBS, VERIF_RUNS)
//!   vsim replay <file>                   re-run a replay file; prints the VIOLATION again
//!   vsim one <ID> <tier> <seed> <run>    run a single simulated run and dump its event log
//!   vsim determinism <ID> <tier> <n>     run n runs twice each and diff fingerprints

use sighook_shim::alloc::SimAlloc;

#[global_allocator]
static ALLOC: SimAlloc = SimAlloc;

/// Observation-only interposition of close(2): counts calls per descriptor number so that the
/// "closed exactly once" clauses (C12, C13, C14) have a deterministic oracle even when a doubled
/// close only hits an unused number.  The executable's symbol pre-empts libc's for every caller in
/// the process (std, the libc crate, signal-hook).  `close_interposed()` self-checks that.
pub mod closelog {
    use std::sync::atomic::{AtomicU32, Ordering};
    pub const N: usize = 4096;
    #[allow(clippy::declare_interior_mutable_const)]
    const Z: AtomicU32 = AtomicU32::new(0);
    pub static CALLS: [AtomicU32; N] = [Z; N];
    pub static OTHER: AtomicU32 = AtomicU32::new(0);
    pub fn calls(fd: i32) -> u32 {
        if fd >= 0 && (fd as usize) < N {
            CALLS[fd as usize].load(Ordering::SeqCst)
        } else {
            0
        }
    }
    pub fn interposed() -> bool {
        let before = OTHER.load(Ordering::SeqCst);
        unsafe { libc::close(-1) };
        OTHER.load(Ordering::SeqCst) == before + 1
    }
}

#[no_mangle]
pub unsafe extern "C" fn close(fd: libc::c_int) -> libc::c_int {
    use std::sync::atomic::Ordering;
    if fd >= 0 && (fd as usize) < closelog::N {
        closelog::CALLS[fd as usize].fetch_add(1, Ordering::SeqCst);
    } else {
        closelog::OTHER.fetch_add(1, Ordering::SeqCst);
    }
    libc::syscall(libc::SYS_close, fd) as libc::c_int
}

/// Deterministic getrandom(2): std seeds every thread's HashMap RandomState from it, and the
/// registry's HashMap iteration (= drop) order would otherwise differ from run to run and from
/// process to process, which breaks replay whenever drop order matters.  Nothing in the simulated
/// process needs real entropy.
#[no_mangle]
pub unsafe extern "C" fn getrandom(buf: *mut libc::c_void, len: libc::size_t, _flags: libc::c_uint) -> libc::ssize_t {
    use std::sync::atomic::Ordering;
    use getrandom_state::CTR;
    let p = buf as *mut u8;
    for i in 0..len {
        let mut x = CTR.fetch_add(0x9E3779B97F4A7C15, Ordering::Relaxed);
        x = (x ^ (x >> 30)).wrapping_mul(0xBF58476D1CE4E5B9);
        x = (x ^ (x >> 27)).wrapping_mul(0x94D049BB133111EB);
        *p.add(i) = (x ^ (x >> 31)) as u8;
    }
    len as libc::ssize_t
}

/// Fault injection at the system-call seam: recv(2) on a simulated thread may fail with EINTR
/// (decided by the run's fault stream, only in runs that enable the fault).  std's UnixStream::read
/// and the library's own drain both go through this symbol.
#[no_mangle]
pub unsafe extern "C" fn recv(fd: libc::c_int, buf: *mut libc::c_void, len: libc::size_t, flags: libc::c_int) -> libc::ssize_t {
    // only a call that could really have slept can be interrupted: blocking descriptor, no MSG_DONTWAIT
    if flags & libc::MSG_DONTWAIT == 0 && sighook_shim::sim::active() && libc::fcntl(fd, libc::F_GETFL) & libc::O_NONBLOCK == 0 && sighook_shim::sim::recv_eintr() {
        *libc::__errno_location() = libc::EINTR;
        return -1;
    }
    let r = libc::syscall(libc::SYS_recvfrom, fd, buf, len, flags, 0usize, 0usize);
    r as libc::ssize_t
}

/// `sigprocmask(2)` and `raise(3)` (used by the default-action emulation) are scheduling points of
/// the simulated process: another thread may run, another signal may arrive, between any two of
/// them.  Behaviour is passed through unchanged to libc's own implementation.
mod next_sym {
    use std::sync::atomic::{AtomicUsize, Ordering};
    pub static SIGPROCMASK: AtomicUsize = AtomicUsize::new(0);
    pub static RAISE: AtomicUsize = AtomicUsize::new(0);
    pub unsafe fn get(slot: &AtomicUsize, name: &[u8]) -> usize {
        let p = slot.load(Ordering::Relaxed);
        if p != 0 {
            return p;
        }
        let f = libc::dlsym(libc::RTLD_NEXT, name.as_ptr() as *const libc::c_char) as usize;
        assert!(f != 0, "dlsym(RTLD_NEXT) failed");
        slot.store(f, Ordering::Relaxed);
        f
    }
}

#[no_mangle]
pub unsafe extern "C" fn sigprocmask(how: libc::c_int, set: *const libc::sigset_t, old: *mut libc::sigset_t) -> libc::c_int {
    sighook_shim::hook::syscall_point();
    let f: unsafe extern "C" fn(libc::c_int, *const libc::sigset_t, *mut libc::sigset_t) -> libc::c_int = std::mem::transmute(next_sym::get(&next_sym::SIGPROCMASK, b"sigprocmask\0"));
    f(how, set, old)
}

#[no_mangle]
pub unsafe extern "C" fn raise(sig: libc::c_int) -> libc::c_int {
    sighook_shim::hook::syscall_point();
    let f: unsafe extern "C" fn(libc::c_int) -> libc::c_int = std::mem::transmute(next_sym::get(&next_sym::RAISE, b"raise\0"));
    f(sig)
}

pub mod getrandom_state {
    use std::sync::atomic::{AtomicU64, Ordering};
    pub static CTR: AtomicU64 = AtomicU64::new(0x243F6A8885A308D3);
    /// Called at the start of every simulated process: the stream restarts, whatever the parent
    /// drew before the fork.
    pub fn reset() {
        CTR.store(0x243F6A8885A308D3, Ordering::SeqCst);
    }
}

mod chansim;
mod driver;
mod histsim;
mod itersim;
mod lin;
mod props;
mod regsim;
mod util;

fn usage() -> ! {
    eprintln!("usage: vsim check <ID> <quick|thorough> | replay <file> | one <ID> <tier> <seed> <run> | determinism <ID> <tier> <n>");
    std::process::exit(2)
}

fn main() {
    let args: Vec<String> = std::env::args().collect();
    if args.len() < 2 {
        usage();
    }
    let code = match args[1].as_str() {
        "check" if args.len() >= 4 => driver::cmd_check(&args[2], &args[3]),
        "replay" if args.len() >= 3 => driver::cmd_replay(&args[2]),
        "one" if args.len() >= 6 => driver::cmd_one(&args[2], &args[3], args[4].parse().unwrap(), args[5].parse().unwrap()),
        "hashorder" => {
            // self-test of the getrandom interposition: iteration order of a std HashMap
            let m: std::collections::HashMap<i32, i32> = (0..12).map(|i| (i, i)).collect();
            let t = std::thread::spawn(|| { let m: std::collections::HashMap<i32, i32> = (0..12).map(|i| (i, i)).collect(); m.keys().copied().collect::<Vec<_>>() }).join().unwrap();
            println!("{:?} {:?}", m.keys().collect::<Vec<_>>(), t);
            0
        }
        "detdiff" if args.len() >= 6 => driver::cmd_detdiff(&args[2], &args[3], args[4].parse().unwrap(), args[5].parse().unwrap()),
        "determinism" if args.len() >= 5 => driver::cmd_determinism(&args[2], &args[3], args[4].parse().unwrap()),
        _ => usage(),
    };
    std::process::exit(code);
}
