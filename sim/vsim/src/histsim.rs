//! histsim: the whole public API driven by seeded / enumerated histories with fault operations
//! (rejected calls, full descriptors, process exit) against small reference models; one forked
//! process per history.  Serves C05, C12, C13, C14, C15.

use std::collections::{BTreeMap, BTreeSet, HashSet};
use std::os::unix::io::{AsRawFd, FromRawFd, IntoRawFd, RawFd};
use std::os::unix::net::{UnixDatagram, UnixStream};
use std::panic::{catch_unwind, AssertUnwindSafe};
use std::sync::atomic::{AtomicBool, AtomicUsize, Ordering};
use std::sync::Arc;

use sighook_shim::shm;
use sighook_shim::sim::{self, Config, ShimGuard};
use signal_hook::iterator::backend::{Handle, SignalDelivery};
use signal_hook::iterator::exfiltrator::{Exfiltrator, SignalOnly, WithOrigin, WithRawSiginfo};
use signal_hook::iterator::SignalsInfo;
use signal_hook::SigId;

use crate::driver::RunSpec;
use crate::props::*;
use crate::util::*;

pub const HIST_REAL: &[&str] = &[
    "the whole public API of signal-hook and signal-hook-registry: real code from /repo",
    "real kernel: sigaction dispositions, pipes, stream and datagram socket pairs, fcntl, close, _exit, wait status of the forked process",
    "std Mutex poisoning and unwinding (panics caught by the caller, double panic = abort)",
];
pub const HIST_STUB: &[&str] = &["asynchronous signal arrival (synchronous direct call of the kernel-reported disposition on the single simulated thread)", "no thread interleaving in this engine: the deciding dimension is the history and the injected rejected/faulting operation"];

pub const PROPS: &[Prop] = &[
    Prop {
        id: "C05",
        engine: Engine::Hist,
        level: "exploration",
        sweep_runs: 0,
        quick_runs: 80_000,
        thorough_runs: 2_000_000,
        rule: "seeded histories of 5-400 operations over {register, register_sigaction, register_signal_unchecked, register_unchecked, unregister(live|stale id), unregister_signal, deliver} on 2-6 catchable signals per history (thorough: incl. real-time signals), checked operation by operation against the reference model (per-signal ordered tag lists, global id set) and against the kernel-visible disposition (same handler, SA_RESTART|SA_SIGINFO, forever). Non-trivial: the history contains a removal followed by a delivery of the same signal and involves >= 2 signals. Distinct: by hash of the operation history.",
        probes: &[(E_HIST_OPS, "history_operations"), (E_HIST_DELIVERIES, "deliveries_checked_against_model"), (E_REMOVALS, "successful_removals"), (E_HIST_CROSSCHECK, "real_kernel_deliveries_cross_checked")],
        real: HIST_REAL,
        stub: HIST_STUB,
        assumptions: &["the EINTR observation is replaced by the SA_RESTART flag query (an asynchronous timer signal would be uncontrolled timing)", "SigId values cannot be forged through the public API, so 'never issued' ids are not generated"],
    },
    Prop {
        id: "C12",
        engine: Engine::Hist,
        level: "exploration",
        sweep_runs: 0,
        quick_runs: 150_000,
        thorough_runs: 4_000_000,
        rule: "seeded histories over {new/with_pipe(list), add_signal(valid | watched | forbidden | negative | >=128 | OS-rejected), handle, clone, drop handle, drop instance, deliver + pending} for the three exfiltrators, every call under catch_unwind, an independent flag action as witness on every signal; reference model = watched set. Non-trivial: the history contains a rejected operation followed by at least one accepted operation or a drop. Distinct: by hash of the operation history.",
        probes: &[(E_HIST_OPS, "history_operations"), (E_HIST_REJECTED, "rejected_operations"), (E_HIST_DELIVERIES, "deliveries_checked_against_model"), (E_FD_REUSE_PROBE, "cleanup_probes_after_last_owner_dropped")],
        real: HIST_REAL,
        stub: HIST_STUB,
        assumptions: &["OS-rejected numbers on this kernel/libc: 0, 32, 33, 65..127"],
    },
    Prop {
        id: "C13",
        engine: Engine::Hist,
        level: "fault_enumeration",
        sweep_runs: 1728,
        quick_runs: 30_000,
        thorough_runs: 1_000_000,
        rule: "grid: descriptor kind {pipe, stream socketpair, dgram socketpair} x initial mode {blocking, non-blocking} x fill {empty, one short of full, full} x burst {1, 2, 7, 300} x entry {pipe::register, register_raw, iterator-internal wake} x ending {unregister, forbidden signal, invalid signal, closed descriptor number} x 2 (second pipe on the same signal or not); then seeded histories. Oracles: bytes read back vs deliveries, would-block probe, descriptor validity after removal/rejection, descriptor-number reuse probe. Non-trivial: the descriptor was full or nearly full, or the registration was rejected. Distinct: by grid cell / history hash.",
        probes: &[(E_PIPE_FULL, "deliveries_with_full_descriptor"), (E_HIST_REJECTED, "rejected_registrations"), (E_FD_REUSE_PROBE, "descriptor_number_reuse_probes"), (E_HIST_DELIVERIES, "deliveries_made"), (E_CLOSE_COUNTED, "runs_with_close_calls_counted_by_interposition"), (E_LOW_FD, "fault:write_end_is_descriptor_0")],
        real: HIST_REAL,
        stub: HIST_STUB,
        assumptions: &["wall clock only as the watchdog for a wake that blocks anyway"],
    },
    Prop {
        id: "C14",
        engine: Engine::Hist,
        level: "fault_enumeration",
        sweep_runs: 10260,
        quick_runs: 10_260 + 40_000,
        thorough_runs: 10_260 + 1_500_000,
        rule: "grid: 19 entry points (registry register/register_sigaction/2 unchecked, flag x4, pipe x2, iterator new/add_signal x 3 exfiltrators, iterator new with a two-element list [SIGUSR1, n] x 3) x signal in [-2,130] + {i32::MIN, i32::MAX} x {fresh process, after three other signals were registered, after the same number was registered through an unchecked entry point, (add_signal) on an instance that already watches the number modulo 128}; each cell in its own forked process under catch_unwind; thorough adds seeded mixes. Oracles: panic vs Err vs Ok as documented, dispositions of all 64 signals bit-identical after a rejection, previously registered actions still run, captured flag/descriptor released, library still usable. Non-trivial: the call was rejected (panic or error). Distinct: by grid cell.",
        probes: &[(E_HIST_REJECTED, "rejected_calls"), (E_HIST_OPS, "calls_made")],
        real: HIST_REAL,
        stub: HIST_STUB,
        assumptions: &["the OS verdict for the unchecked entry points is taken from a bare sigaction probe in the same process"],
    },
    Prop {
        id: "C15",
        engine: Engine::Hist,
        level: "exploration",
        sweep_runs: 0,
        quick_runs: 300_000,
        thorough_runs: 8_000_000,
        rule: "seeded histories per forked process over {application store/swap on the flags, deliver, register, unregister} with flag::register, register_usize, register_conditional_shutdown in both registration orders, statuses 0..255, signals TERM/QUIT/INT/USR1/HUP; the parent compares the real wait status with the reference model's prediction and checks the atexit marker. Non-trivial: the history armed, disarmed or re-armed a condition before the deciding delivery, or the process was terminated by the shutdown. Distinct: by hash of the operation history.",
        probes: &[(E_SHUTDOWN_EXITS, "runs_predicted_to_terminate"), (E_HIST_DELIVERIES, "deliveries_made"), (E_HIST_OPS, "history_operations")],
        real: HIST_REAL,
        stub: HIST_STUB,
        assumptions: &["op-granular: a delivery is synchronous on the application thread"],
    },
];

// ---------------------------------------------------------------------------------------------
// common

static mut RAN: Vec<usize> = Vec::new();
fn ran() -> &'static mut Vec<usize> {
    unsafe { &mut *std::ptr::addr_of_mut!(RAN) }
}

fn hist_action(tag: usize) {
    let _g = ShimGuard::new();
    ran().push(tag);
}

fn deliver(sig: i32, tag: u64) -> sim::Disposition {
    let mut info = make_info(sig, tag);
    let ctx = [0u64; 4];
    sim::count(E_HIST_DELIVERIES, 1);
    sim::deliver(sig, &mut info as *mut RawInfo as *mut libc::siginfo_t, &ctx as *const _ as *mut libc::c_void)
}

fn start(spec: &RunSpec) {
    let cfg = Config { prop: spec.prop.id.to_string(), step_budget: 2_000_000, ..Config::default() };
    sim::start(cfg);
    sim::set_handler_step_limit(2000);
}

fn hmix(h: &mut u64, v: u64) {
    *h ^= v.wrapping_add(0x9E3779B97F4A7C15);
    *h = h.wrapping_mul(0x100000001b3);
}

pub fn run(spec: &RunSpec) -> ! {
    ran().reserve(4096);
    // a memory fault of the simulated process while the public API is driven is a violation of
    // whatever property is being checked
    shm::put_str(&mut shm::get().crash_prop, spec.prop.id);
    match spec.prop.id {
        "C05" => c05(spec),
        "C12" => c12(spec),
        "C13" => c13(spec),
        "C14" => c14(spec),
        "C15" => c15(spec),
        _ => sim::harness_error("histsim: unknown property"),
    }
}

fn panic_msg() -> String {
    shm::get_str(&shm::get().panic_msg)
}

// ---------------------------------------------------------------------------------------------
// C05

fn c05_universe(tier: Tier) -> Vec<i32> {
    let mut v: Vec<i32> = (1..=31).filter(|s| ![libc::SIGKILL, libc::SIGSTOP, libc::SIGILL, libc::SIGFPE, libc::SIGSEGV, libc::SIGBUS, libc::SIGABRT].contains(s)).collect();
    if tier == Tier::Thorough {
        v.extend(34..=64);
    } else {
        v.extend([34, 40, 64]);
    }
    v
}

extern "C" fn c05_foreign_plain(sig: i32) {
    hist_action(9000 + sig as usize);
}
extern "C" fn c05_foreign_info(sig: i32, _i: *mut libc::siginfo_t, _c: *mut libc::c_void) {
    hist_action(9000 + sig as usize);
}

fn c05(spec: &RunSpec) -> ! {
    start(spec);
    let uni = c05_universe(spec.tier);
    let nsig = 2 + sim::work(5) as usize;
    let mut sigs = Vec::new();
    let mut pool = uni.clone();
    for _ in 0..nsig {
        sigs.push(pool.remove(sim::work(pool.len() as u32) as usize));
    }
    // in a third of the histories one of the signals is a *forbidden but catchable* one (SIGILL,
    // SIGFPE), reachable through the unchecked entry points only: the registry must treat its actions
    // and ids like any others (SIGSEGV/SIGBUS stay out: the simulated process keeps its fault probe there)
    let forb = sim::work(3) == 0;
    if forb {
        let f = [libc::SIGILL, libc::SIGFPE][sim::work(2) as usize];
        let at = sim::work(nsig as u32) as usize;
        sigs[at] = f;
    }
    let nops = match sim::work(4) {
        0 => 5 + sim::work(10),
        1 => 15 + sim::work(30),
        2 => 40 + sim::work(80),
        _ => 100 + sim::work(300),
    } as usize;
    // some signals already have a real handler of somebody else, installed with assorted flags
    let mut foreign: BTreeSet<i32> = BTreeSet::new();
    for s in sigs.iter() {
        if sim::work(3) == 0 {
            let fl = [0, libc::SA_RESETHAND, libc::SA_NODEFER, libc::SA_RESTART | libc::SA_RESETHAND, libc::SA_NODEFER | libc::SA_RESETHAND][sim::work(5) as usize];
            let info = sim::work(2) == 0;
            unsafe {
                let mut sa: libc::sigaction = std::mem::zeroed();
                sa.sa_sigaction = if info { c05_foreign_info as usize } else { c05_foreign_plain as usize };
                sa.sa_flags = fl | if info { libc::SA_SIGINFO } else { 0 };
                libc::sigaction(*s, &sa, std::ptr::null_mut());
            }
            foreign.insert(*s);
        }
    }
    let initial: Vec<(usize, i32)> = (1..=64).map(get_disposition).collect();
    let mut model: BTreeMap<i32, Vec<usize>> = BTreeMap::new();
    let mut taken: BTreeSet<i32> = BTreeSet::new();
    let mut ids: Vec<(SigId, usize, i32)> = Vec::new();
    let mut idset: HashSet<SigId> = HashSet::new();
    let mut lib_handler: Option<usize> = None;
    let mut next_tag = 0usize;
    let mut hh = 0u64;
    let mut removal_then_delivery = false;
    let mut removed_sigs: BTreeSet<i32> = BTreeSet::new();
    let mut desc = format!("signals {:?}, {} ops: ", sigs, nops);
    for k in 0..nops {
        shm::get().progress = k as u32;
        sim::count(E_HIST_OPS, 1);
        let r = sim::work(100);
        let touched: i32;
        if ids.is_empty() || r < 35 {
            let sig = sigs[sim::work(nsig as u32) as usize];
            let variant = sim::work(4);
            let variant = if sig == libc::SIGILL || sig == libc::SIGFPE { 2 + variant % 2 } else { variant };
            let tag = next_tag;
            next_tag += 1;
            let res = catch_unwind(AssertUnwindSafe(|| unsafe {
                match variant {
                    0 => signal_hook_registry::register(sig, move || hist_action(tag)),
                    1 => signal_hook_registry::register_sigaction(sig, move |_| hist_action(tag)),
                    2 => signal_hook_registry::register_signal_unchecked(sig, move || hist_action(tag)),
                    _ => signal_hook_registry::register_unchecked(sig, move |_| hist_action(tag)),
                }
            }));
            hmix(&mut hh, 1000 + sig as u64 * 4 + variant as u64);
            if k < 40 {
                desc.push_str(&format!("reg{}({})=#{} ", variant, sig, tag));
            }
            match res {
                Ok(Ok(id)) => {
                    if !idset.insert(id) {
                        sim::report("C05", "id-reused", &format!("op {}: registration for signal {} returned an id handed out before ({:?})", k, sig, id), true);
                    }
                    ids.push((id, tag, sig));
                    model.entry(sig).or_default().push(tag);
                    taken.insert(sig);
                }
                Ok(Err(e)) => sim::report("C05", "registration-failed", &format!("op {}: registration for catchable signal {} failed: {}", k, sig, e), true),
                Err(_) => sim::report("C05", "registration-panicked", &format!("op {}: registration for signal {} panicked: {}", k, sig, panic_msg()), true),
            }
            touched = sig;
        } else if r < 65 {
            let (id, tag, sig) = ids[sim::work(ids.len() as u32) as usize];
            let got = signal_hook_registry::unregister(id);
            let present = model.get(&sig).map(|v| v.contains(&tag)).unwrap_or(false);
            hmix(&mut hh, 2000 + tag as u64);
            if k < 40 {
                desc.push_str(&format!("unreg(#{})={} ", tag, got));
            }
            if got != present {
                sim::report("C05", "unregister-result", &format!("op {}: unregister of action #{} (signal {}) returned {} but the action was {}registered", k, tag, sig, got, if present { "" } else { "not " }), true);
            }
            if present {
                model.get_mut(&sig).unwrap().retain(|t| *t != tag);
                removed_sigs.insert(sig);
                sim::count(E_REMOVALS, 1);
            }
            touched = sig;
        } else if r < 73 {
            let sig = sigs[sim::work(nsig as u32) as usize];
            #[allow(deprecated)]
            let got = signal_hook_registry::unregister_signal(sig);
            let nonempty = model.get(&sig).map(|v| !v.is_empty()).unwrap_or(false);
            hmix(&mut hh, 3000 + sig as u64);
            if k < 40 {
                desc.push_str(&format!("unreg_signal({})={} ", sig, got));
            }
            if got != nonempty {
                sim::report("C05", "unregister-signal-result", &format!("op {}: unregister_signal({}) returned {} but the model has {} actions", k, sig, got, model.get(&sig).map(|v| v.len()).unwrap_or(0)), true);
            }
            if nonempty {
                model.get_mut(&sig).unwrap().clear();
                removed_sigs.insert(sig);
                sim::count(E_REMOVALS, 1);
            }
            touched = sig;
        } else {
            touched = sigs[sim::work(nsig as u32) as usize];
            hmix(&mut hh, 4000 + touched as u64);
            if k < 40 {
                desc.push_str(&format!("deliver({}) ", touched));
            }
        }
        // after every operation: the touched signal and one other behave like the model
        let other = sigs[sim::work(nsig as u32) as usize];
        for s in [touched, other] {
            ran().clear();
            let d = deliver(s, k as u64);
            let mut want: Vec<usize> = model.get(&s).cloned().unwrap_or_default();
            if foreign.contains(&s) {
                // the pre-existing handler runs first (directly while the library has not taken
                // the signal over, chained afterwards)
                want.insert(0, 9000 + s as usize);
            }
            if *ran() != want {
                sim::report(
                    "C05",
                    "delivery-differs-from-model",
                    &format!("after op {} a delivery of signal {} ran actions {:?}; the reference model says {:?} (taken over: {})", k, s, ran(), want, taken.contains(&s)),
                    true,
                );
            }
            if removed_sigs.contains(&s) && nsig >= 2 {
                removal_then_delivery = true;
            }
            if taken.contains(&s) && !matches!(d, sim::Disposition::Handler(_)) {
                sim::report("C05", "handler-uninstalled", &format!("after op {} signal {} (taken over earlier) no longer has the library's handler: {:?}", k, s, d), true);
            }
            // cross-validation of the delivery model: a real, kernel-made delivery of the same
            // signal (raise() is synchronous on the calling thread) must run the same actions
            if taken.contains(&s) && k % 4 == 0 {
                ran().clear();
                sim::count(E_HIST_CROSSCHECK, 1);
                // (a real-time signal cannot be queued when the user's RLIMIT_SIGPENDING is used up
                // by other processes: raise() then fails with EAGAIN and nothing was delivered)
                let raised = unsafe { libc::raise(s) } == 0;
                if raised && *ran() != want {
                    sim::harness_error(&format!("delivery model and real kernel disagree: after op {} a real raise({}) ran {:?}, the simulated delivery ran {:?}", k, s, ran(), want));
                }
            }
        }
        // kernel-visible disposition of every signal
        for s in 1..=64 {
            let (h, fl) = get_disposition(s);
            if taken.contains(&s) {
                match lib_handler {
                    None => lib_handler = Some(h),
                    Some(l) => {
                        if h != l {
                            sim::report("C05", "disposition-changed", &format!("after op {} signal {} has handler {:#x}, the library's handler is {:#x}", k, s, h, l), true);
                        }
                    }
                }
                if fl & libc::SA_RESTART == 0 || fl & libc::SA_SIGINFO == 0 {
                    sim::report("C05", "disposition-flags", &format!("after op {} signal {} has sa_flags {:#x}: SA_RESTART|SA_SIGINFO expected", k, s, fl), true);
                }
                if fl & libc::SA_RESETHAND != 0 {
                    sim::report("C05", "disposition-flags", &format!("after op {} signal {} has sa_flags {:#x} with SA_RESETHAND: the library's handler would be uninstalled by the first delivery", k, s, fl), true);
                }
            } else if (h, fl) != initial[s as usize - 1] {
                sim::report("C05", "untouched-signal-changed", &format!("after op {} the disposition of signal {} which was never registered changed to ({:#x},{:#x})", k, s, h, fl), true);
            }
        }
    }
    sim::note(&desc);
    sim::sig_mix(hh);
    if removal_then_delivery {
        sim::mark_nontrivial();
    }
    sim::finish_ok()
}

// ---------------------------------------------------------------------------------------------
// C12

trait OutSig {
    fn sig(&self) -> i32;
}
impl OutSig for libc::c_int {
    fn sig(&self) -> i32 {
        *self
    }
}
impl OutSig for libc::siginfo_t {
    fn sig(&self) -> i32 {
        self.si_signo
    }
}
impl OutSig for signal_hook::iterator::exfiltrator::origin::Origin {
    fn sig(&self) -> i32 {
        self.signal
    }
}

static CW_DROPS: AtomicUsize = AtomicUsize::new(0);
static CW_DEPTH: AtomicUsize = AtomicUsize::new(0);

#[derive(Debug)]
struct CanaryW {
    fd: RawFd,
}
impl AsRawFd for CanaryW {
    fn as_raw_fd(&self) -> RawFd {
        self.fd
    }
}
impl Drop for CanaryW {
    fn drop(&mut self) {
        CW_DROPS.fetch_add(1, Ordering::SeqCst);
        CW_DEPTH.store(sim::handler_depth() as usize, Ordering::SeqCst);
        unsafe { libc::close(self.fd) };
    }
}

const C12_VALID: [i32; 9] = [libc::SIGUSR1, libc::SIGUSR2, libc::SIGURG, libc::SIGWINCH, libc::SIGHUP, libc::SIGTERM, libc::SIGALRM, 34, 40];
const C12_FORBIDDEN: [i32; 5] = [libc::SIGKILL, libc::SIGSTOP, libc::SIGILL, libc::SIGFPE, libc::SIGSEGV];
const C12_NEG: [i32; 3] = [-1, -7, i32::MIN];
const C12_BIG: [i32; 4] = [128, 129, 200, i32::MAX];
const C12_OSREJ: [i32; 6] = [0, 32, 33, 65, 100, 127];

#[derive(Clone, Copy, PartialEq, Debug)]
enum Expect {
    Ok,
    Err,
    Panic,
}

fn c12_draw_signal() -> (i32, Expect) {
    match sim::work(100) {
        0..=59 => (C12_VALID[sim::work(C12_VALID.len() as u32) as usize], Expect::Ok),
        60..=69 => (C12_FORBIDDEN[sim::work(5) as usize], Expect::Panic),
        70..=77 => (C12_NEG[sim::work(3) as usize], Expect::Panic),
        78..=85 => (C12_BIG[sim::work(4) as usize], Expect::Panic),
        _ => (C12_OSREJ[sim::work(6) as usize], Expect::Err),
    }
}

struct C12State<E: Exfiltrator> {
    inst: Option<SignalDelivery<UnixStream, E>>,
    plain: Option<SignalsInfo<E>>,
    handles: Vec<Handle>,
    watched: BTreeSet<i32>,
    probe: RawFd,
    wfd: RawFd,
    drops_before: usize,
    witness: BTreeMap<i32, Arc<AtomicBool>>,
    ever_watched: BTreeSet<i32>,
    /// close() was called on the current instance (documented: further signals may or may not
    /// be returned, but only real ones)
    closed: bool,
}

fn witness_for<E: Exfiltrator>(st: &mut C12State<E>, sig: i32) {
    if !st.witness.contains_key(&sig) && C12_VALID.contains(&sig) {
        let f = Arc::new(AtomicBool::new(false));
        signal_hook::flag::register(sig, Arc::clone(&f)).expect("witness flag registration");
        st.witness.insert(sig, f);
    }
}

fn c12_check_delivery<E: Exfiltrator>(st: &mut C12State<E>, sig: i32, k: usize, ctx: &str)
where
    E::Output: OutSig,
{
    witness_for(st, sig);
    let f = st.witness[&sig].clone();
    f.store(false, Ordering::SeqCst);
    drain_fd(st.probe);
    deliver(sig, k as u64);
    if !f.load(Ordering::SeqCst) {
        sim::report("C12", "witness-not-run", &format!("op {} ({}): an independent flag action on signal {} did not run: the process-wide registry is damaged", k, ctx, sig), true);
    }
    let expect_watched = st.watched.contains(&sig);
    let got: Option<Vec<i32>> = if let Some(i) = st.inst.as_mut() {
        Some(i.pending().map(|o| o.sig()).collect())
    } else if let Some(p) = st.plain.as_mut() {
        Some(p.pending().map(|o| o.sig()).collect())
    } else {
        None
    };
    if let Some(g) = got {
        let want: Vec<i32> = if expect_watched { vec![sig] } else { vec![] };
        if g != want && !(st.closed && g.is_empty()) {
            sim::report("C12", "instance-differs-from-model", &format!("op {} ({}): after one delivery of signal {} the instance reported {:?}; the reference model (watched {:?}) says {:?}", k, ctx, sig, g, st.watched, want), true);
        }
    }
}

/// After the instance and every handle are gone: registrations removed, pipe closed, nothing is
/// written any more, other actions on the same signals still run.
fn c12_cleanup_check<E: Exfiltrator>(st: &mut C12State<E>, k: usize)
where
    E::Output: OutSig,
{
    if st.probe < 0 {
        return;
    }
    sim::count(E_FD_REUSE_PROBE, 1);
    let drops = CW_DROPS.load(Ordering::SeqCst) - st.drops_before;
    if drops != 1 {
        sim::report("C12", "write-end-not-released-once", &format!("op {}: after the instance and all its handles were dropped its write end has been released {} times", k, drops), true);
    }
    if CW_DEPTH.load(Ordering::SeqCst) != 0 {
        sim::report("C12", "write-end-released-in-handler", "the write end was released inside a signal handler", true);
    }
    if fd_valid(st.wfd) {
        sim::report("C12", "pipe-not-closed", &format!("op {}: descriptor {} of the instance's write end is still open after everything was dropped", k, st.wfd), true);
    }
    let sigs: Vec<i32> = st.ever_watched.iter().copied().collect();
    for s in sigs {
        drain_fd(st.probe);
        st.watched.clear();
        c12_check_delivery(st, s, k, "after drop");
        let n = drain_fd(st.probe);
        if n != 0 {
            sim::report("C12", "registration-leaked", &format!("op {}: a delivery of signal {} after the instance and all handles were dropped still wrote {} byte(s) to its pipe: a registration was left behind", k, s, n), true);
        }
    }
    unsafe { libc::close(st.probe) };
    st.probe = -1;
}

fn c12_generic<E>(spec: &RunSpec, exname: &str) -> !
where
    E: Exfiltrator + Default,
    E::Output: OutSig,
{
    let mut st: C12State<E> = C12State { inst: None, plain: None, handles: Vec::new(), watched: BTreeSet::new(), probe: -1, wfd: -1, drops_before: 0, witness: BTreeMap::new(), ever_watched: BTreeSet::new(), closed: false };
    let nops = 3 + sim::work(if spec.tier == Tier::Thorough { 40 } else { 22 }) as usize;
    let mut hh = 0u64;
    let mut desc = format!("{} {} ops: ", exname, nops);
    let mut rejected_seen = false;
    let mut accepted_after_reject = false;
    for k in 0..nops {
        shm::get().progress = k as u32;
        sim::count(E_HIST_OPS, 1);
        let alive = st.inst.is_some() || st.plain.is_some();
        let r = sim::work(100);
        if !alive && st.handles.is_empty() {
            // constructor
            c12_cleanup_check(&mut st, k);
            st.closed = false;
            let n = sim::work(4) as usize;
            let mut list = Vec::new();
            let mut expect = Expect::Ok;
            for _ in 0..n {
                let (s, e) = c12_draw_signal();
                list.push(s);
                if expect == Expect::Ok && e != Expect::Ok {
                    expect = e;
                }
            }
            let use_pipe = sim::work(4) != 0;
            hmix(&mut hh, 100 + list.iter().map(|s| *s as u64 & 0xff).sum::<u64>() + use_pipe as u64);
            desc.push_str(&format!("new{}({:?})", if use_pipe { "_pipe" } else { "" }, list));
            for s in list.iter() {
                witness_for(&mut st, *s);
            }
            let mut valid_listed: Vec<i32> = list.iter().copied().filter(|s| C12_VALID.contains(s)).collect();
            valid_listed.dedup();
            let res: Result<Result<(), std::io::Error>, ()>;
            if use_pipe {
                let (rd, wr) = UnixStream::pair().expect("socketpair");
                st.probe = unsafe { libc::dup(rd.as_raw_fd()) };
                st.wfd = wr.into_raw_fd();
                st.drops_before = CW_DROPS.load(Ordering::SeqCst);
                let cw = CanaryW { fd: st.wfd };
                let r = catch_unwind(AssertUnwindSafe(|| SignalDelivery::with_pipe(rd, cw, E::default(), list.iter())));
                res = match r {
                    Ok(Ok(i)) => {
                        st.inst = Some(i);
                        Ok(Ok(()))
                    }
                    Ok(Err(e)) => Ok(Err(e)),
                    Err(_) => Err(()),
                };
            } else {
                let r = catch_unwind(AssertUnwindSafe(|| SignalsInfo::<E>::new(list.iter())));
                res = match r {
                    Ok(Ok(i)) => {
                        st.plain = Some(i);
                        Ok(Ok(()))
                    }
                    Ok(Err(e)) => Ok(Err(e)),
                    Err(_) => Err(()),
                };
            }
            let got = match &res {
                Ok(Ok(())) => Expect::Ok,
                Ok(Err(_)) => Expect::Err,
                Err(()) => Expect::Panic,
            };
            desc.push_str(&format!("={:?} ", got));
            if got != expect {
                sim::report("C12", "constructor-outcome", &format!("op {}: constructing an instance for {:?} ended with {:?}, documented behaviour is {:?} (last panic: {})", k, list, got, expect, panic_msg()), true);
            }
            if got == Expect::Ok {
                st.watched = list.iter().copied().collect();
                st.ever_watched.extend(list.iter().copied());
                if rejected_seen {
                    accepted_after_reject = true;
                }
            } else {
                sim::count(E_HIST_REJECTED, 1);
                rejected_seen = true;
                // a failed constructor leaves nothing registered
                st.watched.clear();
                for s in valid_listed.iter() {
                    st.ever_watched.insert(*s);
                }
                if use_pipe {
                    c12_cleanup_check(&mut st, k);
                } else {
                    for s in valid_listed.iter() {
                        c12_check_delivery(&mut st, *s, k, "after failed constructor");
                    }
                }
                st.ever_watched.clear();
            }
        } else if r < 40 && (alive || !st.handles.is_empty()) {
            // add_signal through the instance or through a handle clone
            let (mut s, mut e) = c12_draw_signal();
            if e == Expect::Ok && sim::work(3) == 0 && !st.watched.is_empty() {
                let v: Vec<i32> = st.watched.iter().copied().collect();
                s = v[sim::work(v.len() as u32) as usize];
                e = Expect::Ok;
            }
            witness_for(&mut st, s);
            let via_handle = !st.handles.is_empty() && (!alive || sim::work(2) == 0);
            hmix(&mut hh, 200 + (s as u64 & 0xffff) * 2 + via_handle as u64);
            desc.push_str(&format!("add{}({})", if via_handle { "_h" } else { "" }, s));
            let r = catch_unwind(AssertUnwindSafe(|| {
                if via_handle {
                    let i = sim::work(st.handles.len() as u32) as usize;
                    st.handles[i].add_signal(s)
                } else if let Some(i) = st.inst.as_ref() {
                    i.handle().add_signal(s)
                } else {
                    st.plain.as_ref().unwrap().add_signal(s)
                }
            }));
            let got = match &r {
                Ok(Ok(())) => Expect::Ok,
                Ok(Err(_)) => Expect::Err,
                Err(_) => Expect::Panic,
            };
            desc.push_str(&format!("={:?} ", got));
            if got != e {
                sim::report(
                    "C12",
                    "add-signal-outcome",
                    &format!("op {}: add_signal({}) ended with {:?}, documented behaviour is {:?} (watched {:?}; last panic: {}; history: {})", k, s, got, e, st.watched, panic_msg(), desc),
                    true,
                );
            }
            if got == Expect::Ok {
                st.watched.insert(s);
                st.ever_watched.insert(s);
                if rejected_seen {
                    accepted_after_reject = true;
                }
            } else {
                sim::count(E_HIST_REJECTED, 1);
                rejected_seen = true;
            }
            // whatever happened: everything watched is still delivered, the rejected one is not
            let all: Vec<i32> = st.watched.iter().copied().collect();
            for w_ in all {
                c12_check_delivery(&mut st, w_, k, "after add_signal");
            }
            if got != Expect::Ok && C12_VALID.contains(&s) == false && (1..=64).contains(&s) && !C12_FORBIDDEN.contains(&s) {
                // nothing to deliver for numbers the OS rejects
            }
        } else if r < 55 && alive {
            let h = if let Some(i) = st.inst.as_ref() { i.handle() } else { st.plain.as_ref().unwrap().handle() };
            st.handles.push(h);
            hmix(&mut hh, 300);
            desc.push_str("handle ");
        } else if r < 62 && !st.handles.is_empty() {
            let i = sim::work(st.handles.len() as u32) as usize;
            let c = st.handles[i].clone();
            st.handles.push(c);
            hmix(&mut hh, 301);
            desc.push_str("clone ");
        } else if r < 72 && !st.handles.is_empty() {
            let i = sim::work(st.handles.len() as u32) as usize;
            let h = st.handles.remove(i);
            hmix(&mut hh, 302);
            desc.push_str("drop_handle ");
            if catch_unwind(AssertUnwindSafe(move || drop(h))).is_err() {
                sim::report("C12", "drop-panicked", &format!("op {}: dropping a handle panicked: {} (history: {})", k, panic_msg(), desc), true);
            }
            if rejected_seen {
                accepted_after_reject = true;
            }
        } else if r < 77 && (alive || !st.handles.is_empty()) {
            // close() through the instance or a handle: registrations stay until the owners go
            hmix(&mut hh, 304);
            desc.push_str("close ");
            let r = catch_unwind(AssertUnwindSafe(|| {
                if !st.handles.is_empty() {
                    st.handles[0].close()
                } else if let Some(i) = st.inst.as_ref() {
                    i.handle().close()
                } else {
                    st.plain.as_ref().unwrap().handle().close()
                }
            }));
            if r.is_err() {
                sim::report("C12", "close-panicked", &format!("op {}: close() panicked: {} (history: {})", k, panic_msg(), desc), true);
            }
            st.closed = true;
        } else if r < 82 && alive {
            hmix(&mut hh, 303);
            desc.push_str("drop_instance ");
            let i = st.inst.take();
            let p = st.plain.take();
            if catch_unwind(AssertUnwindSafe(move || {
                drop(i);
                drop(p);
            }))
            .is_err()
            {
                sim::report("C12", "drop-panicked", &format!("op {}: dropping the instance panicked: {} (history: {})", k, panic_msg(), desc), true);
            }
            if rejected_seen {
                accepted_after_reject = true;
            }
        } else {
            // deliver something watched or unwatched
            let s = if !st.watched.is_empty() && sim::work(3) != 0 {
                let v: Vec<i32> = st.watched.iter().copied().collect();
                v[sim::work(v.len() as u32) as usize]
            } else {
                C12_VALID[sim::work(C12_VALID.len() as u32) as usize]
            };
            hmix(&mut hh, 400 + s as u64);
            desc.push_str(&format!("deliver({}) ", s));
            if alive {
                c12_check_delivery(&mut st, s, k, "deliver");
            } else {
                witness_for(&mut st, s);
                deliver(s, k as u64);
            }
        }
        if st.inst.is_none() && st.plain.is_none() && st.handles.is_empty() {
            c12_cleanup_check(&mut st, k);
            st.watched.clear();
            st.ever_watched.clear();
        }
    }
    // end: drop everything, cleanup must hold
    let i = st.inst.take();
    let p = st.plain.take();
    let hs = std::mem::take(&mut st.handles);
    if catch_unwind(AssertUnwindSafe(move || {
        drop(hs);
        drop(i);
        drop(p);
    }))
    .is_err()
    {
        sim::report("C12", "drop-panicked", &format!("final drop of the instance/handles panicked: {} (history: {})", panic_msg(), desc), true);
    }
    c12_cleanup_check(&mut st, nops);
    sim::note(&desc);
    sim::sig_mix(hh);
    if rejected_seen && accepted_after_reject {
        sim::mark_nontrivial();
    }
    sim::finish_ok()
}

fn c12(spec: &RunSpec) -> ! {
    shm::put_str(&mut shm::get().abort_prop, "C12");
    start(spec);
    match sim::work(3) {
        0 => c12_generic::<SignalOnly>(spec, "SignalOnly"),
        1 => c12_generic::<WithRawSiginfo>(spec, "WithRawSiginfo"),
        _ => c12_generic::<WithOrigin>(spec, "WithOrigin"),
    }
}

// ---------------------------------------------------------------------------------------------
// C13

#[derive(Clone, Copy, Debug, PartialEq)]
enum FdKind {
    Pipe,
    Stream,
    Dgram,
}

fn make_pair(kind: FdKind, small: bool) -> (RawFd, RawFd) {
    match kind {
        FdKind::Pipe => {
            let mut f = [0i32; 2];
            unsafe {
                libc::pipe(f.as_mut_ptr());
                if small {
                    libc::fcntl(f[1], libc::F_SETPIPE_SZ, 4096);
                }
            }
            (f[0], f[1])
        }
        FdKind::Stream => {
            let (a, b) = UnixStream::pair().expect("pair");
            (a.into_raw_fd(), b.into_raw_fd())
        }
        FdKind::Dgram => {
            let (a, b) = UnixDatagram::pair().expect("pair");
            (a.into_raw_fd(), b.into_raw_fd())
        }
    }
}

fn set_blocking(fd: RawFd, blocking: bool) {
    unsafe {
        let fl = libc::fcntl(fd, libc::F_GETFL, 0);
        libc::fcntl(fd, libc::F_SETFL, if blocking { fl & !libc::O_NONBLOCK } else { fl | libc::O_NONBLOCK });
    }
}

/// Count what is readable: bytes for pipe/stream, (datagrams, bytes) for dgram.
fn read_all(kind: FdKind, rd: RawFd) -> (usize, usize) {
    let mut units = 0;
    let mut bytes = 0;
    let mut buf = [0u8; 65536];
    loop {
        let mut p = libc::pollfd { fd: rd, events: libc::POLLIN, revents: 0 };
        if unsafe { libc::poll(&mut p, 1, 0) } <= 0 || p.revents & libc::POLLIN == 0 {
            break;
        }
        let r = unsafe { libc::read(rd, buf.as_mut_ptr() as *mut _, if kind == FdKind::Dgram { 16 } else { buf.len() }) };
        if r < 0 {
            break;
        }
        if r == 0 && kind != FdKind::Dgram {
            break;
        }
        units += 1;
        bytes += r as usize;
        if units > 10_000_000 {
            break;
        }
    }
    (units, bytes)
}

#[derive(Debug)]
struct FdW(RawFd);
impl AsRawFd for FdW {
    fn as_raw_fd(&self) -> RawFd {
        self.0
    }
}
impl Drop for FdW {
    fn drop(&mut self) {
        unsafe { libc::close(self.0) };
    }
}

fn c13(spec: &RunSpec) -> ! {
    shm::put_str(&mut shm::get().hang_prop, "C13");
    start(spec);
    let sweep = spec.run < spec.prop.sweep_runs;
    let mut r = spec.run;
    let pick = |r: &mut u64, n: u64| -> u64 {
        if sweep {
            let v = *r % n;
            *r /= n;
            v
        } else {
            sim::work(n as u32) as u64
        }
    };
    let second = pick(&mut r, 2) == 1;
    let ending = pick(&mut r, 4); // 0 unregister, 1 forbidden, 2 invalid signal, 3 closed fd
    let entry = pick(&mut r, 3); // 0 pipe::register, 1 register_raw, 2 iterator
    let burst = [1usize, 2, 7, 300][pick(&mut r, 4) as usize];
    let fill = pick(&mut r, 3); // 0 empty, 1 one short of full, 2 full
    let blocking = pick(&mut r, 2) == 0;
    let kind = [FdKind::Pipe, FdKind::Stream, FdKind::Dgram][pick(&mut r, 3) as usize];
    // the iterator back end requires a descriptor that supports send(2): no plain pipes there
    let kind = if entry == 2 && kind == FdKind::Pipe { FdKind::Stream } else { kind };
    let sig = libc::SIGUSR1;
    let other_sig = libc::SIGUSR2;
    sim::note(&format!(
        "kind {:?} blocking {} fill {} burst {} entry {} ending {} second-pipe {}",
        kind,
        blocking,
        ["empty", "one-short-of-full", "full"][fill as usize],
        burst,
        ["pipe::register", "pipe::register_raw", "iterator wake"][entry as usize],
        ["unregister", "forbidden-signal", "invalid-signal", "closed-descriptor"][ending as usize],
        second
    ));
    sim::sig_mix(spec.run.wrapping_mul(0x9E3779B97F4A7C15) ^ (kind as u64) << 7 ^ fill << 3 ^ ending);
    // capacity in 1-byte units of an empty descriptor of this kind (measured, never assumed)
    let cap = {
        let (a, b) = make_pair(kind, true);
        set_blocking(b, false);
        let n = fill_fd(b);
        unsafe {
            libc::close(a);
            libc::close(b);
        }
        n
    };
    let cap2 = {
        let (a, b) = make_pair(FdKind::Stream, false);
        set_blocking(b, false);
        let n = fill_fd(b);
        unsafe {
            libc::close(a);
            libc::close(b);
        }
        n
    };
    let (rd, mut wr) = make_pair(kind, true);
    // fault (environment): the process runs without a standard input (a daemon that closed it, a
    // service started with no descriptors), so the write end handed over is descriptor number 0
    if !sweep && sim::work(5) == 0 {
        unsafe {
            libc::dup2(wr, 0);
            libc::close(wr);
        }
        wr = 0;
        sim::count(E_LOW_FD, 1);
    }
    // fill level; `present` = units inside before the burst
    let mut present = 0usize;
    if fill > 0 {
        set_blocking(wr, false);
        present = fill_fd(wr);
        if fill == 1 {
            // make room for exactly one more unit
            if kind == FdKind::Pipe {
                // a pipe slot is only reusable once it is completely consumed: drain the page and
                // refill all but one byte
                let mut page = vec![0u8; 8192];
                let got = unsafe { libc::read(rd, page.as_mut_ptr() as *mut _, page.len()) }.max(0) as usize;
                let back = unsafe { libc::write(wr, page.as_ptr() as *const _, got - 1) }.max(0) as usize;
                present = present - got + back;
            } else {
                let mut b = [0u8; 16];
                unsafe { libc::read(rd, b.as_mut_ptr() as *mut _, if kind == FdKind::Dgram { 16 } else { 1 }) };
                present -= 1;
            }
        }
    }
    set_blocking(wr, blocking);
    // second, independent pipe on the same signal (must keep working whatever happens to the first)
    let (rd2, id2) = if second {
        let (a, b) = UnixStream::pair().expect("pair");
        let id = signal_hook::low_level::pipe::register(sig, b).expect("second pipe");
        (a.into_raw_fd(), Some(id))
    } else {
        (-1, None)
    };

    // a sibling registration of the *same* open file description (dup of the write end - the
    // documented try_clone recipe), for another signal, made before the registration under test
    let mut sibling: Option<SigId> = None;
    if second && entry < 2 && ending == 0 {
        let d = unsafe { libc::dup(wr) };
        match signal_hook::low_level::pipe::register_raw(other_sig, d) {
            Ok(sid) => sibling = Some(sid),
            Err(e) => sim::report("C13", "registration-failed", &format!("registration of a duplicate of the descriptor failed: {}", e), true),
        }
        if kind == FdKind::Dgram {
            // the send-ability probe of that registration left an empty datagram
            let (u, b) = if fill == 0 { read_all(kind, rd) } else { (0, 0) };
            let _ = (u, b);
        }
    }
    // ---- registration (or rejected registration)
    let target_sig = match ending {
        1 => libc::SIGKILL,
        2 => 1000,
        _ => sig,
    };
    let mut wr_for_reg = wr;
    if ending == 3 {
        // hand over a descriptor number that is already closed
        unsafe { libc::close(wr) };
        wr_for_reg = wr;
    }
    let mut inst: Option<SignalDelivery<UnixStream, SignalOnly>> = None;
    let before: Vec<(usize, i32)> = (1..=64).map(get_disposition).collect();
    let interposed = crate::closelog::interposed();
    if interposed {
        sim::count(E_CLOSE_COUNTED, 1);
    }
    let closes0 = crate::closelog::calls(wr);
    let reg = catch_unwind(AssertUnwindSafe(|| -> Result<Option<SigId>, std::io::Error> {
        match entry {
            0 => {
                let owned = FdOwner(wr_for_reg);
                signal_hook::low_level::pipe::register(target_sig, owned).map(Some)
            }
            1 => signal_hook::low_level::pipe::register_raw(target_sig, wr_for_reg).map(Some),
            _ => {
                let (r_, _w) = UnixStream::pair()?;
                let d = SignalDelivery::with_pipe(r_, FdW(wr_for_reg), SignalOnly::default(), [target_sig].iter())?;
                inst = Some(d);
                Ok(None)
            }
        }
    }));
    let rejected = ending != 0;
    let outcome = match &reg {
        Ok(Ok(_)) => "ok",
        Ok(Err(_)) => "err",
        Err(_) => "panic",
    };
    if rejected {
        sim::count(E_HIST_REJECTED, 1);
        sim::mark_nontrivial();
        let want = match ending {
            1 => "panic",
            2 => {
                if entry == 2 {
                    "panic"
                } else {
                    "err"
                }
            }
            _ => {
                if entry == 2 {
                    "ok"
                } else {
                    "err"
                }
            }
        };
        // a closed descriptor handed to the iterator back end is not inspected at registration
        if outcome != want {
            sim::report("C13", "rejection-outcome", &format!("registration ended with {}, expected {} (last panic: {})", outcome, want, panic_msg()), true);
        }
        if !(ending == 3 && entry == 2) {
            // the descriptor handed over has been closed exactly once and nothing changed
            if ending != 3 && fd_valid(wr) {
                sim::report("C13", "descriptor-leaked-on-rejection", &format!("registration was rejected ({}) but descriptor {} handed over is still open", outcome, wr), true);
            }
            let n = crate::closelog::calls(wr) - closes0;
            if interposed && n != 1 {
                sim::report("C13", "descriptor-not-closed-exactly-once", &format!("registration was rejected ({}): close() was called {} times on descriptor number {} that had been handed over (a second close hits whoever reuses the number)", outcome, n, wr), true);
            }
            let after: Vec<(usize, i32)> = (1..=64).map(get_disposition).collect();
            if ending != 0 && after != before && ending != 3 {
                sim::report("C13", "dispositions-changed-on-rejection", "a rejected self-pipe registration changed signal dispositions", true);
            }
        }
        // descriptor-number reuse probe: the number is free again; take it and make sure nothing
        // writes to it or closes it later
        drop(inst.take());
        let (p0, p1) = make_pair(FdKind::Pipe, false);
        sim::count(E_FD_REUSE_PROBE, 1);
        let _keep = signal_hook::flag::register(other_sig, Arc::new(AtomicBool::new(false)));
        for k in 0..burst.min(20) {
            deliver(sig, k as u64);
            deliver(other_sig, k as u64);
        }
        if let Ok(idk) = _keep {
            signal_hook::low_level::unregister(idk);
        }
        for f in [p0, p1] {
            if !fd_valid(f) {
                sim::report("C13", "foreign-descriptor-closed", &format!("after the rejected registration a later close hit descriptor number {} which now belongs to somebody else", f), true);
            }
        }
        if read_all(FdKind::Pipe, p0).1 != 0 {
            sim::report("C13", "write-after-release", "bytes were written to a descriptor number after it had been released", true);
        }
        if second {
            let (u, _) = read_all(FdKind::Stream, rd2);
            if u == 0 {
                sim::report("C13", "other-pipe-silenced", "the second pipe registered on the same signal received nothing", true);
            }
        }
        let _ = id2;
        sim::finish_ok()
    }
    let id = match reg {
        Ok(Ok(id)) => id,
        Ok(Err(e)) => sim::violation("C13", "registration-failed", &format!("registration of a valid descriptor failed: {}", e)),
        Err(_) => sim::violation("C13", "registration-panicked", &format!("registration of a valid descriptor panicked: {}", panic_msg())),
    };
    // the application keeps a duplicate of a *socket* it registered and switches it back to
    // blocking mode (file status flags are shared between duplicates): deliveries must stay
    // non-blocking all the same - for sockets the library promises MSG_DONTWAIT per delivery, not a
    // flag it set once (pipes are different: there the flag is the documented mechanism)
    if kind != FdKind::Pipe && second && ending == 0 {
        let d = unsafe { libc::dup(wr) };
        if d >= 0 {
            set_blocking(d, true);
            unsafe { libc::close(d) };
        }
    }
    // the sibling registration of the same open file description (made first, see above) goes
    // away now: the surviving registration must not be affected (file status flags are shared
    // between duplicates of a descriptor)
    if let Some(sid) = sibling.take() {
        if !signal_hook::low_level::unregister(sid) {
            sim::report("C13", "unregister-failed", "unregister of the sibling self-pipe action returned false", true);
        }
    }
    // the probe datagram / flags
    if entry < 2 && kind == FdKind::Pipe {
        let fl = unsafe { libc::fcntl(wr, libc::F_GETFL, 0) };
        if fl & libc::O_NONBLOCK == 0 {
            sim::report("C13", "pipe-left-blocking", "a pipe write end registered for wake-ups was left in blocking mode", true);
        }
    }
    // what is readable before the burst (dgram: the documented empty probe datagram may be there)
    let (pre_units, pre_bytes) = if fill == 0 { read_all(kind, rd) } else { (0, 0) };
    if kind != FdKind::Dgram && pre_bytes != 0 {
        sim::report("C13", "spurious-bytes", &format!("{} byte(s) appeared in the pipe at registration", pre_bytes), true);
    }
    if pre_units > 1 || pre_bytes != 0 {
        sim::report("C13", "spurious-bytes", &format!("{} datagram(s) with {} byte(s) appeared at registration", pre_units, pre_bytes), true);
    }
    // room before the burst
    let room: Option<usize> = match fill {
        0 => None,
        1 => Some(1),
        _ => Some(0),
    };
    if fill > 0 {
        sim::mark_nontrivial();
    }
    let own0 = sim::own_steps();
    for k in 0..burst {
        shm::get().progress = k as u32;
        deliver(sig, k as u64);
    }
    let _ = own0;
    if fill >= 1 {
        sim::count(E_PIPE_FULL, burst as u64);
    }
    // read back
    let (units, bytes) = read_all(kind, rd);
    let got = if kind == FdKind::Dgram { units } else { bytes };
    match room {
        None => {
            // empty at the start: exactly one byte per delivery while there is room
            let expect = burst.min(cap);
            if got != expect || bytes != expect {
                sim::report("C13", "bytes-vs-deliveries", &format!("{} deliveries into an empty {:?} (capacity {} one-byte units) produced {} unit(s) / {} bytes for the reader; {} expected", burst, kind, cap, got, bytes, expect), true);
            }
        }
        Some(room) => {
            // (nearly) full: exactly what still fitted was added, nothing more, nothing lost
            let expect = present + room.min(burst);
            if got != expect {
                sim::report("C13", "bytes-vs-deliveries", &format!("{:?} held {} unit(s) with room for {} more; after {} deliveries the reader finds {} unit(s), expected {}", kind, present, room, burst, got, expect), true);
            }
        }
    }
    // after draining: one more delivery produces exactly one byte
    deliver(sig, 999_999);
    let (u2, b2) = read_all(kind, rd);
    if !(u2 == 1 && b2 == 1) && !(kind != FdKind::Dgram && b2 == 1) {
        sim::report("C13", "bytes-vs-deliveries", &format!("one delivery after draining produced {} unit(s) / {} byte(s)", u2, b2), true);
    }
    if second {
        let (_, b) = read_all(FdKind::Stream, rd2);
        if b != (burst + 1).min(cap2) {
            sim::report("C13", "other-pipe-disturbed", &format!("the second pipe on the same signal (capacity {}) saw {} bytes for {} deliveries", cap2, b, burst + 1), true);
        }
    }
    // ---- removal: descriptor closed exactly once, never written again
    match (id, inst.take()) {
        (Some(id), _) => {
            if !signal_hook::low_level::unregister(id) {
                sim::report("C13", "unregister-failed", "unregister of the self-pipe action returned false", true);
            }
        }
        (None, Some(d)) => drop(d),
        _ => {}
    }
    if fd_valid(wr) {
        sim::report("C13", "descriptor-not-closed", &format!("descriptor {} is still open after its action was removed", wr), true);
    }
    let n = crate::closelog::calls(wr) - closes0;
    if interposed && n != 1 {
        sim::report("C13", "descriptor-not-closed-exactly-once", &format!("after removal close() has been called {} times on descriptor number {}", n, wr), true);
    }
    let (p0, p1) = make_pair(FdKind::Pipe, false);
    sim::count(E_FD_REUSE_PROBE, 1);
    let reused = p0 == wr || p1 == wr;
    for k in 0..5 {
        deliver(sig, k);
    }
    // remove something else too: a doubled close would hit the reused number
    if let Some(i2) = id2 {
        signal_hook::low_level::unregister(i2);
    }
    for f in [p0, p1] {
        if !fd_valid(f) {
            sim::report("C13", "foreign-descriptor-closed", &format!("descriptor number {} (reused: {}) was closed by the library after it had been released", f, reused), true);
        }
    }
    if read_all(FdKind::Pipe, p0).1 != 0 || read_all(kind, rd).1 != 0 {
        sim::report("C13", "write-after-release", "a delivery after removal still wrote to the pipe (or to the descriptor number that was reused)", true);
    }
    sim::finish_ok()
}

/// A descriptor owner handing its number over through IntoRawFd.
struct FdOwner(RawFd);
impl IntoRawFd for FdOwner {
    fn into_raw_fd(self) -> RawFd {
        self.0
    }
}

// ---------------------------------------------------------------------------------------------
// C14

fn c14_signal(i: u64) -> i32 {
    match i {
        0..=132 => i as i32 - 2,
        133 => i32::MIN,
        _ => i32::MAX,
    }
}

fn os_accepts(sig: i32) -> bool {
    if sig <= 0 || sig > 64 {
        return false;
    }
    unsafe {
        let mut cur: libc::sigaction = std::mem::zeroed();
        if libc::sigaction(sig, std::ptr::null(), &mut cur) != 0 {
            return false;
        }
        libc::sigaction(sig, &cur, std::ptr::null_mut()) == 0
    }
}

const ENTRY_NAMES: [&str; 19] = [
    "registry::register",
    "registry::register_sigaction",
    "registry::register_signal_unchecked",
    "registry::register_unchecked",
    "flag::register",
    "flag::register_usize",
    "flag::register_conditional_shutdown",
    "flag::register_conditional_default",
    "pipe::register",
    "pipe::register_raw",
    "Signals::new",
    "Signals::add_signal",
    "SignalsInfo<WithRawSiginfo>::new",
    "SignalsInfo<WithRawSiginfo>::add_signal",
    "SignalsInfo<WithOrigin>::new",
    "SignalsInfo<WithOrigin>::add_signal",
    "Signals::new([SIGUSR1, n])",
    "SignalsInfo<WithRawSiginfo>::new([SIGUSR1, n])",
    "SignalsInfo<WithOrigin>::new([SIGUSR1, n])",
];

fn open_fds() -> usize {
    std::fs::read_dir("/proc/self/fd").map(|d| d.count()).unwrap_or(0)
}

fn c14(spec: &RunSpec) -> ! {
    shm::put_str(&mut shm::get().abort_prop, "C14");
    shm::put_str(&mut shm::get().exit_prop, "C14");
    start(spec);
    let sweep = spec.run < spec.prop.sweep_runs;
    let (entry, sig, warm_mode) = if sweep {
        let mut r = spec.run;
        let warm = r % 4;
        r /= 4;
        let si = r % 135;
        r /= 135;
        (r as usize % 19, c14_signal(si), warm)
    } else {
        (sim::work(19) as usize, c14_signal(sim::work(135) as u64), sim::work(4) as u64)
    };
    let warm = warm_mode == 1;
    sim::note(&format!("{}({}) {}", ENTRY_NAMES[entry], sig, ["in a fresh process", "after three other signals were registered", "after the same number was registered through the unchecked entry point", "on an instance that already watches the number modulo 128 (where applicable)"][warm_mode as usize]));
    sim::sig_mix(((entry as u64) << 20) ^ ((sig as i64 as u64) << 2) ^ warm_mode);
    sim::count(E_HIST_OPS, 1);
    // warm-up: three other signals with tagged actions
    let warm_sigs = [libc::SIGHUP, libc::SIGWINCH, libc::SIGURG];
    if warm {
        for (i, s) in warm_sigs.iter().enumerate() {
            unsafe { signal_hook_registry::register(*s, move || hist_action(i)).expect("warm-up") };
        }
    }
    let forbidden = C12_FORBIDDEN.contains(&sig);
    let accepted_by_os = os_accepts(sig);
    // the same number went through the unchecked entry point before (the library's handler is
    // installed for it and its slot exists): the checked entry points must refuse all the same
    let mut same_before = false;
    if warm_mode == 2 && accepted_by_os {
        same_before = unsafe { signal_hook_registry::register_signal_unchecked(sig, || hist_action(200)).is_ok() };
    }
    let unchecked = entry == 2 || entry == 3;
    let iterator = entry >= 10;
    let list2 = entry >= 16;
    let want = if unchecked {
        if accepted_by_os {
            Expect::Ok
        } else {
            Expect::Err
        }
    } else if forbidden {
        Expect::Panic
    } else if iterator && (sig < 0 || sig >= 128) {
        Expect::Panic
    } else if accepted_by_os {
        if entry == 7 && signal_hook::low_level::signal_name(sig).is_none() {
            Expect::Err
        } else {
            Expect::Ok
        }
    } else {
        Expect::Err
    };
    if list2 {
        // make sure SIGUSR1 is taken over already, so that its disposition does not differ after
        unsafe { signal_hook_registry::register(libc::SIGUSR1, || ()).expect("pre-registration of USR1") };
    }
    let flag = Arc::new(AtomicBool::new(false));
    let uflag = Arc::new(AtomicUsize::new(0));
    let (prd, pwr) = make_pair(FdKind::Stream, false);
    let closes0 = crate::closelog::calls(pwr);
    let interposed = crate::closelog::interposed();
    let mut keep_a: Option<SignalsInfo<SignalOnly>> = None;
    let mut keep_b: Option<SignalsInfo<WithRawSiginfo>> = None;
    let mut keep_c: Option<SignalsInfo<WithOrigin>> = None;
    // warm mode 3: the instance already watches the number's residue modulo the table size (a
    // masked or wrapped index must not turn the refusal into "already registered")
    let alias = (sig as usize & 127) as i32;
    let pre: Vec<i32> = if warm_mode == 3 && alias != sig && os_accepts(alias) && !C12_FORBIDDEN.contains(&alias) { vec![alias] } else { Vec::new() };
    if entry == 11 {
        keep_a = Some(SignalsInfo::<SignalOnly>::new(&pre).expect("Signals for add_signal"));
    }
    if entry == 13 {
        keep_b = Some(SignalsInfo::<WithRawSiginfo>::new(&pre).expect("Signals for add_signal"));
    }
    if entry == 15 {
        keep_c = Some(SignalsInfo::<WithOrigin>::new(&pre).expect("Signals for add_signal"));
    }
    let before: Vec<(usize, i32)> = (1..=64).map(get_disposition).collect();
    shm::get().expect_set = 2;
    shm::put_str(&mut shm::get().msg, &format!("{}({})", ENTRY_NAMES[entry], sig));
    let fds_before = open_fds();
    let res = catch_unwind(AssertUnwindSafe(|| -> Result<(), std::io::Error> {
        unsafe {
            match entry {
                0 => signal_hook_registry::register(sig, || hist_action(100)).map(|_| ()),
                1 => signal_hook_registry::register_sigaction(sig, |_| hist_action(100)).map(|_| ()),
                2 => signal_hook_registry::register_signal_unchecked(sig, || hist_action(100)).map(|_| ()),
                3 => signal_hook_registry::register_unchecked(sig, |_| hist_action(100)).map(|_| ()),
                4 => signal_hook::flag::register(sig, Arc::clone(&flag)).map(|_| ()),
                5 => signal_hook::flag::register_usize(sig, Arc::clone(&uflag), 5).map(|_| ()),
                6 => signal_hook::flag::register_conditional_shutdown(sig, 1, Arc::clone(&flag)).map(|_| ()),
                7 => signal_hook::flag::register_conditional_default(sig, Arc::clone(&flag)).map(|_| ()),
                8 => signal_hook::low_level::pipe::register(sig, UnixStream::from_raw_fd(pwr)).map(|_| ()),
                9 => signal_hook::low_level::pipe::register_raw(sig, pwr).map(|_| ()),
                10 => SignalsInfo::<SignalOnly>::new(&[sig]).map(|s| keep_a = Some(s)),
                11 => keep_a.as_ref().unwrap().add_signal(sig),
                12 => SignalsInfo::<WithRawSiginfo>::new(&[sig]).map(|s| keep_b = Some(s)),
                13 => keep_b.as_ref().unwrap().add_signal(sig),
                14 => SignalsInfo::<WithOrigin>::new(&[sig]).map(|s| keep_c = Some(s)),
                15 => keep_c.as_ref().unwrap().add_signal(sig),
                16 => SignalsInfo::<SignalOnly>::new(&[libc::SIGUSR1, sig]).map(|s| keep_a = Some(s)),
                17 => SignalsInfo::<WithRawSiginfo>::new(&[libc::SIGUSR1, sig]).map(|s| keep_b = Some(s)),
                _ => SignalsInfo::<WithOrigin>::new(&[libc::SIGUSR1, sig]).map(|s| keep_c = Some(s)),
            }
        }
    }));
    shm::get().expect_set = 0;
    let got = match &res {
        Ok(Ok(())) => Expect::Ok,
        Ok(Err(_)) => Expect::Err,
        Err(_) => Expect::Panic,
    };
    if got != want {
        sim::report(
            "C14",
            "outcome",
            &format!("{}({}) ended with {:?}; expected {:?} (forbidden: {}, OS accepts the number: {}; last panic: {})", ENTRY_NAMES[entry], sig, got, want, forbidden, accepted_by_os, panic_msg()),
            true,
        );
    }
    if got != Expect::Ok {
        sim::count(E_HIST_REJECTED, 1);
        sim::mark_nontrivial();
        // nothing changed
        let after: Vec<(usize, i32)> = (1..=64).map(get_disposition).collect();
        if after != before {
            let s = (0..64).find(|i| after[*i] != before[*i]).unwrap() + 1;
            sim::report("C14", "dispositions-changed", &format!("rejected {}({}) changed the disposition of signal {}: {:?} -> {:?}", ENTRY_NAMES[entry], sig, s, before[s - 1], after[s - 1]), true);
        }
        // everything captured has been released
        if Arc::strong_count(&flag) != 1 || Arc::strong_count(&uflag) != 1 {
            sim::report("C14", "captured-flag-leaked", &format!("rejected {}({}) kept a reference to the flag it was given (strong counts {} / {})", ENTRY_NAMES[entry], sig, Arc::strong_count(&flag), Arc::strong_count(&uflag)), true);
        }
        if (entry == 8 || entry == 9) && fd_valid(pwr) {
            sim::report("C14", "descriptor-leaked", &format!("rejected {}({}) left descriptor {} open", ENTRY_NAMES[entry], sig, pwr), true);
        }
        if (entry == 8 || entry == 9) && interposed && crate::closelog::calls(pwr) - closes0 != 1 {
            sim::report("C14", "descriptor-not-closed-exactly-once", &format!("rejected {}({}) called close() {} times on the descriptor it was given", ENTRY_NAMES[entry], sig, crate::closelog::calls(pwr) - closes0), true);
        }
        if entry >= 10 && entry != 11 && entry != 13 && entry != 15 {
            // a refused constructor leaves nothing behind: no descriptor, no registration
            let fds_after = open_fds() + if entry == 8 || entry == 9 { 1 } else { 0 };
            if fds_after != fds_before {
                sim::report("C14", "descriptor-leaked", &format!("refused {}({}) left {} descriptor(s) open (an action registered for an earlier element of the list keeps the self-pipe alive)", ENTRY_NAMES[entry], sig, fds_after as i64 - fds_before as i64), true);
            }
        }
    }
    if same_before {
        ran().clear();
        deliver(sig, 3);
        let mut want_ran = vec![200];
        if got == Expect::Ok && entry <= 3 {
            want_ran.push(100);
        }
        if *ran() != want_ran {
            sim::report("C14", "registry-disturbed", &format!("after {}({}) = {:?} a delivery of that signal ran {:?} instead of {:?}", ENTRY_NAMES[entry], sig, got, ran(), want_ran), true);
        }
    }
    // previously registered actions still run, exactly as before
    if warm {
        for (i, s) in warm_sigs.iter().enumerate() {
            ran().clear();
            deliver(*s, i as u64);
            let mut want_ran = vec![i];
            if got == Expect::Ok && *s == sig && entry <= 3 {
                want_ran.push(100);
            }
            if *ran() != want_ran {
                sim::report("C14", "registry-disturbed", &format!("after {}({}) = {:?} a delivery of the earlier-registered signal {} ran {:?} instead of {:?}", ENTRY_NAMES[entry], sig, got, s, ran(), want_ran), true);
            }
        }
    }
    // the library is still fully usable
    let f2 = Arc::new(AtomicBool::new(false));
    let usable = catch_unwind(AssertUnwindSafe(|| signal_hook::flag::register(libc::SIGUSR2, Arc::clone(&f2))));
    match usable {
        Ok(Ok(_)) => {
            deliver(libc::SIGUSR2, 7);
            if !f2.load(Ordering::SeqCst) {
                sim::report("C14", "library-unusable", &format!("after {}({}) a fresh flag registration does not run", ENTRY_NAMES[entry], sig), true);
            }
        }
        other => sim::report("C14", "library-unusable", &format!("after {}({}) a fresh valid registration failed: {:?} {}", ENTRY_NAMES[entry], sig, other.map(|r| r.map(|_| ())), panic_msg()), true),
    }
    for (k, alive) in [(11, keep_a.is_some()), (13, keep_b.is_some()), (15, keep_c.is_some())] {
        if entry == k && alive && got != Expect::Ok {
            // the instance survives the rejected addition
            let r = catch_unwind(AssertUnwindSafe(|| match k {
                11 => keep_a.as_ref().unwrap().add_signal(libc::SIGUSR1),
                13 => keep_b.as_ref().unwrap().add_signal(libc::SIGUSR1),
                _ => keep_c.as_ref().unwrap().add_signal(libc::SIGUSR1),
            }));
            if !matches!(r, Ok(Ok(()))) {
                sim::report("C14", "instance-unusable-after-rejection", &format!("after the rejected {}({}) a valid add_signal on the same instance failed: {}", ENTRY_NAMES[entry], sig, panic_msg()), true);
            }
        }
    }
    shm::get().expect_set = 2;
    let dropped = catch_unwind(AssertUnwindSafe(move || {
        drop(keep_a);
        drop(keep_b);
        drop(keep_c);
    }));
    shm::get().expect_set = 0;
    if dropped.is_err() {
        sim::report("C14", "drop-panicked", &format!("dropping the instance after {}({}) panicked: {}", ENTRY_NAMES[entry], sig, panic_msg()), true);
    }
    unsafe { libc::close(prd) };
    sim::finish_ok()
}

// ---------------------------------------------------------------------------------------------
// C15

extern "C" fn quick_exit_marker() {
    if shm::is_set() {
        shm::get().atexit_ran = 2;
    }
}

extern "C" fn atexit_marker() {
    if shm::is_set() {
        shm::get().atexit_ran = 1;
    }
}

fn c15(spec: &RunSpec) -> ! {
    shm::put_str(&mut shm::get().exit_prop, "C15");
    unsafe { libc::atexit(atexit_marker) };
    // ... and the other family of exit-time hooks (run by quick_exit, not by _exit)
    extern "C" {
        fn at_quick_exit(f: extern "C" fn()) -> libc::c_int;
    }
    unsafe { at_quick_exit(quick_exit_marker) };
    start(spec);
    let sigs = [libc::SIGTERM, libc::SIGQUIT, libc::SIGINT, libc::SIGUSR1, libc::SIGHUP];
    let ns = 1 + sim::work(3) as usize;
    let mut pool = sigs.to_vec();
    let mut my: Vec<i32> = Vec::new();
    for _ in 0..ns {
        my.push(pool.remove(sim::work(pool.len() as u32) as usize));
    }
    // per signal: ordered list of actions as registered; the model evaluates them in order
    #[derive(Clone)]
    enum Act {
        SetBool(usize),
        SetUsize(usize, usize),
        Shutdown(usize, i32),
    }
    let nflags = 1 + sim::work(3) as usize;
    let bools: Vec<Arc<AtomicBool>> = (0..nflags).map(|_| Arc::new(AtomicBool::new(false))).collect();
    let usizes: Vec<Arc<AtomicUsize>> = (0..2).map(|_| Arc::new(AtomicUsize::new(0))).collect();
    let mut mb = vec![false; nflags];
    let mut mu = vec![0usize; 2];
    let mut acts: BTreeMap<i32, Vec<(Act, SigId)>> = BTreeMap::new();
    let nops = 4 + sim::work(28) as usize;
    let mut hh = 0u64;
    let mut desc = String::new();
    let mut toggled = false;
    // half of the histories start from the documented "double ctrl-c" pattern (shutdown and arming
    // flag on the same signal and condition, in either registration order) and stay focused on it
    let focused = sim::work(2) == 0;
    let shutdown_first = sim::work(2) == 0;
    for k in 0..nops {
        shm::get().progress = k as u32;
        sim::count(E_HIST_OPS, 1);
        let r = if focused && k >= 2 { 25 + sim::work(75) } else { sim::work(100) };
        if k < 2 || r < 25 {
            let s = if focused { my[0] } else { my[sim::work(ns as u32) as usize] };
            let a = if focused && k < 2 {
                if (k == 0) == shutdown_first {
                    Act::Shutdown(0, sim::work(256) as i32)
                } else {
                    Act::SetBool(0)
                }
            } else {
                match sim::work(4) {
                    0 => Act::SetBool(sim::work(nflags as u32) as usize),
                    1 => Act::SetUsize(sim::work(2) as usize, 1 + sim::work(1000) as usize),
                    _ => Act::Shutdown(sim::work(nflags as u32) as usize, sim::work(256) as i32),
                }
            };
            let id = match &a {
                Act::SetBool(i) => signal_hook::flag::register(s, Arc::clone(&bools[*i])),
                Act::SetUsize(i, v) => signal_hook::flag::register_usize(s, Arc::clone(&usizes[*i]), *v),
                Act::Shutdown(i, st) => signal_hook::flag::register_conditional_shutdown(s, *st, Arc::clone(&bools[*i])),
            }
            .expect("registration");
            match &a {
                Act::SetBool(i) => {
                    hmix(&mut hh, 10 + *i as u64);
                    desc.push_str(&format!("flag({},b{}) ", sig_name(s), i))
                }
                Act::SetUsize(i, v) => {
                    hmix(&mut hh, 20 + *i as u64 + *v as u64 * 7);
                    desc.push_str(&format!("usize({},u{}={}) ", sig_name(s), i, v))
                }
                Act::Shutdown(i, st) => {
                    hmix(&mut hh, 30 + *i as u64 + *st as u64 * 11);
                    desc.push_str(&format!("shutdown({},status {},if b{}) ", sig_name(s), st, i))
                }
            }
            acts.entry(s).or_default().push((a, id));
        } else if r < 50 {
            // the application arms / disarms / resets
            let i = if focused { 0 } else { sim::work(nflags as u32) as usize };
            let v = sim::work(2) == 1;
            if sim::work(2) == 0 {
                bools[i].store(v, Ordering::SeqCst);
            } else {
                let old = bools[i].swap(v, Ordering::SeqCst);
                if old != mb[i] {
                    sim::report("C15", "flag-value", &format!("op {}: flag b{} held {} but the model says {}", k, i, old, mb[i]), true);
                }
            }
            if mb[i] != v {
                toggled = true;
            }
            mb[i] = v;
            hmix(&mut hh, 40 + i as u64 * 2 + v as u64);
            desc.push_str(&format!("b{}:={} ", i, v));
            if sim::work(3) == 0 {
                let j = sim::work(2) as usize;
                usizes[j].store(0, Ordering::SeqCst);
                mu[j] = 0;
            }
        } else if r < 60 && acts.values().any(|v| !v.is_empty()) {
            let ss: Vec<i32> = acts.iter().filter(|(_, v)| !v.is_empty()).map(|(s, _)| *s).collect();
            let s = ss[sim::work(ss.len() as u32) as usize];
            let v = acts.get_mut(&s).unwrap();
            let i = sim::work(v.len() as u32) as usize;
            let (_, id) = v.remove(i);
            if !signal_hook::low_level::unregister(id) {
                sim::report("C15", "unregister-failed", "unregister of a flag action returned false", true);
            }
            hmix(&mut hh, 50 + i as u64);
            desc.push_str(&format!("unregister({},#{}) ", sig_name(s), i));
        } else {
            let s = if focused && sim::work(4) != 0 { my[0] } else { my[sim::work(ns as u32) as usize] };
            hmix(&mut hh, 60 + s as u64);
            desc.push_str(&format!("deliver({}) ", sig_name(s)));
            // model: run the actions in registration order
            let mut dies: Option<i32> = None;
            let mut nb = mb.clone();
            let mut nu = mu.clone();
            for (a, _) in acts.get(&s).map(|v| v.as_slice()).unwrap_or(&[]) {
                match a {
                    Act::SetBool(i) => nb[*i] = true,
                    Act::SetUsize(i, v) => nu[*i] = *v,
                    Act::Shutdown(i, st) => {
                        if nb[*i] {
                            dies = Some(*st);
                            break;
                        }
                    }
                }
            }
            let sh = shm::get();
            shm::put_str(&mut sh.msg, &format!("history: {} | delivery of {} at op {}", desc, sig_name(s), k));
            if let Some(st) = dies {
                sim::count(E_SHUTDOWN_EXITS, 1);
                sim::note(&desc);
                sim::sig_mix(hh);
                sim::mark_nontrivial();
                sim::flush();
                sh.expect_exit = st;
                sh.expect_set = 1;
                if hh % 2 == 0 {
                    // the shutdown must end the whole process, not just the thread the signal
                    // arrived on: let it arrive on a second thread while this one waits
                    let kk = k as u64;
                    let _ = std::thread::spawn(move || {
                        deliver(s, kk);
                    })
                    .join();
                } else {
                    deliver(s, k as u64);
                }
                // still alive: the shutdown did not happen
                sh.expect_set = 0;
                sim::violation("C15", "shutdown-did-not-terminate", &format!("a conditional shutdown whose condition was true at that moment did not terminate the process (expected exit status {}); history: {}", st, desc));
            } else {
                sh.expect_set = 2;
                deliver(s, k as u64);
                sh.expect_set = 0;
                mb = nb;
                mu = nu;
                for i in 0..nflags {
                    if bools[i].load(Ordering::SeqCst) != mb[i] {
                        sim::report("C15", "flag-value", &format!("after the delivery of {} at op {} flag b{} holds {}; the model says {} (history: {})", sig_name(s), k, i, !mb[i], mb[i], desc), true);
                    }
                }
                for j in 0..2 {
                    if usizes[j].load(Ordering::SeqCst) != mu[j] {
                        sim::report("C15", "flag-value", &format!("after the delivery of {} at op {} usize flag u{} holds {}; the model says {} (history: {})", sig_name(s), k, j, usizes[j].load(Ordering::SeqCst), mu[j], desc), true);
                    }
                }
            }
        }
    }
    sim::note(&desc);
    sim::sig_mix(hh);
    if toggled {
        sim::mark_nontrivial();
    }
    sim::finish_ok()
}
