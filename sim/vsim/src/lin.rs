//! Linearisability search (Wing & Gong with memoisation) of registry histories against the
//! reference model "per-signal ordered list of action tags".

use std::collections::{BTreeMap, HashSet};

#[derive(Clone, Debug)]
pub enum OpKind {
    /// successful registration of `tag` for `sig`
    Register { sig: i32, tag: usize },
    /// unregister of `tag` (registered for `sig`) with the returned result
    Unregister { sig: i32, tag: usize, result: bool },
    /// result None: the call unwound (a Drop panicked) - accepted with either result
    UnregisterSignal { sig: i32, result: Option<bool> },
    /// a delivery of `sig` that ran exactly `tags`, in this order
    Delivery { sig: i32, tags: Vec<usize> },
}

#[derive(Clone, Debug)]
pub struct Op {
    pub kind: OpKind,
    pub inv: u64,
    pub ret: u64,
    pub desc: String,
}

pub const UNTAGGED_BASE: usize = 1_000_000;

type State = BTreeMap<i32, Vec<usize>>;

fn apply(st: &State, op: &OpKind) -> Option<State> {
    match op {
        OpKind::Register { sig, tag } => {
            let mut s = st.clone();
            s.entry(*sig).or_default().push(*tag);
            Some(s)
        }
        OpKind::Unregister { sig, tag, result } => {
            let present = st.get(sig).map(|v| v.contains(tag)).unwrap_or(false);
            if present != *result {
                return None;
            }
            let mut s = st.clone();
            if present {
                s.get_mut(sig).unwrap().retain(|t| t != tag);
            }
            Some(s)
        }
        OpKind::UnregisterSignal { sig, result } => {
            let nonempty = st.get(sig).map(|v| !v.is_empty()).unwrap_or(false);
            if let Some(r) = result {
                if nonempty != *r {
                    return None;
                }
            }
            let mut s = st.clone();
            if let Some(v) = s.get_mut(sig) {
                v.clear();
            }
            Some(s)
        }
        OpKind::Delivery { sig, tags } => {
            // untagged (built-in) actions take part in the registry state but log nothing
            let cur: Vec<usize> = st.get(sig).map(|v| v.iter().copied().filter(|t| *t < UNTAGGED_BASE).collect()).unwrap_or_default();
            if cur == *tags {
                Some(st.clone())
            } else {
                None
            }
        }
    }
}

fn key(mask: u64, st: &State) -> (u64, Vec<(i32, Vec<usize>)>) {
    (mask, st.iter().filter(|(_, v)| !v.is_empty()).map(|(k, v)| (*k, v.clone())).collect())
}

pub struct LinResult {
    pub ok: bool,
    pub states: u64,
    /// on failure: the longest linearised prefix found and the ops that could not be placed
    pub explain: String,
}

pub fn check(ops: &[Op]) -> LinResult {
    assert!(ops.len() <= 64, "history too long for the linearisability search");
    let n = ops.len();
    let full: u64 = if n == 64 { u64::MAX } else { (1u64 << n) - 1 };
    let mut memo: HashSet<(u64, Vec<(i32, Vec<usize>)>)> = HashSet::new();
    let mut states = 0u64;
    let mut best: (u32, Vec<usize>, State) = (0, Vec::new(), State::new());
    let mut stack: Vec<usize> = Vec::new();

    fn rec(
        ops: &[Op],
        mask: u64,
        full: u64,
        st: &State,
        memo: &mut HashSet<(u64, Vec<(i32, Vec<usize>)>)>,
        states: &mut u64,
        stack: &mut Vec<usize>,
        best: &mut (u32, Vec<usize>, State),
    ) -> bool {
        if mask == full {
            return true;
        }
        *states += 1;
        if *states > 2_000_000 {
            return true; // give up soundly: never a false alarm
        }
        if !memo.insert(key(mask, st)) {
            return false;
        }
        if mask.count_ones() > best.0 {
            *best = (mask.count_ones(), stack.clone(), st.clone());
        }
        // earliest return among unlinearised ops bounds who may go next
        let mut min_ret = u64::MAX;
        for (i, o) in ops.iter().enumerate() {
            if mask & (1 << i) == 0 && o.ret < min_ret {
                min_ret = o.ret;
            }
        }
        for (i, o) in ops.iter().enumerate() {
            if mask & (1 << i) != 0 || o.inv > min_ret {
                continue;
            }
            if let Some(ns) = apply(st, &o.kind) {
                stack.push(i);
                if rec(ops, mask | (1 << i), full, &ns, memo, states, stack, best) {
                    return true;
                }
                stack.pop();
            }
        }
        false
    }

    let ok = rec(ops, 0, full, &State::new(), &mut memo, &mut states, &mut stack, &mut best);
    let explain = if ok {
        String::new()
    } else {
        let placed: Vec<String> = best.1.iter().map(|i| ops[*i].desc.clone()).collect();
        let rest: Vec<String> = (0..n).filter(|i| !best.1.contains(i)).map(|i| format!("{} [{}..{}]", ops[i].desc, ops[i].inv, ops[i].ret)).collect();
        format!("longest consistent prefix: [{}] reaching state {:?}; cannot place any of: [{}]", placed.join("; "), best.2, rest.join("; "))
    };
    LinResult { ok, states, explain }
}
