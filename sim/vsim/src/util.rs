//! Small helpers shared by the engines.

use sighook_shim::sim;

use crate::props::Prop;

// engine ("user") event kinds
pub const UE_OP_INV: u16 = 100;
pub const UE_OP_RET: u16 = 101;
pub const UE_ACTION_BEGIN: u16 = 102;
pub const UE_ACTION_END: u16 = 103;
pub const UE_CANARY_DROP: u16 = 104;
pub const UE_DELIVERY_BEGIN: u16 = 105;
pub const UE_DELIVERY_END: u16 = 106;
pub const UE_PREV_CALLED: u16 = 107;
pub const UE_YIELD: u16 = 108;
pub const UE_POLL: u16 = 109;
pub const UE_CALLBACK: u16 = 110;
pub const UE_CLOSE: u16 = 111;
pub const UE_SEND: u16 = 112;
pub const UE_RECV: u16 = 113;
pub const UE_TOK_DROP: u16 = 114;
pub const UE_PHASE: u16 = 115;
pub const UE_CHECK: u16 = 116;

pub fn ev_name(_p: &Prop, k: u16) -> &'static str {
    match k {
        UE_OP_INV => "op_invoke",
        UE_OP_RET => "op_return",
        UE_ACTION_BEGIN => "action_begin",
        UE_ACTION_END => "action_end",
        UE_CANARY_DROP => "canary_drop",
        UE_DELIVERY_BEGIN => "delivery_begin",
        UE_DELIVERY_END => "delivery_end",
        UE_PREV_CALLED => "prev_handler",
        UE_YIELD => "iter_yield",
        UE_POLL => "poll_result",
        UE_CALLBACK => "readiness_cb",
        UE_CLOSE => "close",
        UE_SEND => "chan_send",
        UE_RECV => "chan_recv",
        UE_TOK_DROP => "token_drop",
        UE_PHASE => "phase",
        UE_CHECK => "oracle_check",
        _ => sim::ev_name(k),
    }
}

/// The signals the interleaving engines use: all have default action "ignore" or are harmless to
/// take over, none is forbidden.
pub const SIGS: [i32; 5] = [libc::SIGUSR1, libc::SIGUSR2, libc::SIGURG, libc::SIGWINCH, libc::SIGHUP];

pub fn sig_name(s: i32) -> &'static str {
    match s {
        libc::SIGUSR1 => "USR1",
        libc::SIGUSR2 => "USR2",
        libc::SIGURG => "URG",
        libc::SIGWINCH => "WINCH",
        libc::SIGHUP => "HUP",
        libc::SIGTERM => "TERM",
        libc::SIGINT => "INT",
        libc::SIGQUIT => "QUIT",
        libc::SIGSYS => "SYS",
        34 => "RTMIN",
        63 => "RTMAX-1",
        64 => "RTMAX",
        _ => "SIG?",
    }
}

/// A harness-built siginfo_t: si_signo, si_code = SI_QUEUE, pid/uid of this process, a unique
/// si_value tag, the remaining bytes a seeded pattern.
#[repr(C, align(8))]
#[derive(Clone, Copy)]
pub struct RawInfo(pub [u8; 128]);

pub fn make_info(sig: i32, tag: u64) -> RawInfo {
    make_info_code(sig, tag, -1) // SI_QUEUE
}

/// The si_code values the iterator engine rotates through: every cause class the origin
/// extractor distinguishes plus codes it must not recognise for a non-SIGCHLD signal
/// (1..6 are CLD_* for SIGCHLD but POLL_IN.. / ILL_.. / application-defined for others).
pub const SI_CODES: [i32; 12] = [-1, 0, -6, 0x80, -1, -2, 1, 3, 6, -3, 7, -1];

pub fn make_info_code(sig: i32, tag: u64, code: i32) -> RawInfo {
    let mut b = [0u8; 128];
    let mut x = tag.wrapping_mul(0x9E3779B97F4A7C15) | 1;
    for i in 32..128 {
        x ^= x << 13;
        x ^= x >> 7;
        x ^= x << 17;
        b[i] = x as u8;
    }
    b[0..4].copy_from_slice(&sig.to_ne_bytes());
    b[4..8].copy_from_slice(&0i32.to_ne_bytes());
    b[8..12].copy_from_slice(&code.to_ne_bytes());
    let pid = unsafe { libc::getpid() };
    let uid = unsafe { libc::getuid() };
    b[16..20].copy_from_slice(&pid.to_ne_bytes());
    b[20..24].copy_from_slice(&uid.to_ne_bytes());
    b[24..32].copy_from_slice(&tag.to_ne_bytes());
    RawInfo(b)
}

pub fn info_tag(info: &libc::siginfo_t) -> u64 {
    let p = info as *const _ as *const u8;
    let mut t = [0u8; 8];
    unsafe { std::ptr::copy_nonoverlapping(p.add(24), t.as_mut_ptr(), 8) };
    u64::from_ne_bytes(t)
}

pub fn info_bytes(info: &libc::siginfo_t) -> [u8; 128] {
    let mut b = [0u8; 128];
    unsafe { std::ptr::copy_nonoverlapping(info as *const _ as *const u8, b.as_mut_ptr(), 128) };
    b
}

pub fn set_disposition(sig: i32, handler: usize, siginfo: bool) {
    unsafe {
        let mut sa: libc::sigaction = std::mem::zeroed();
        sa.sa_sigaction = handler;
        sa.sa_flags = if siginfo { libc::SA_SIGINFO } else { 0 };
        let r = libc::sigaction(sig, &sa, std::ptr::null_mut());
        assert_eq!(r, 0, "sigaction set-up failed");
    }
}

pub fn set_disposition_flags(sig: i32, handler: usize, flags: i32) {
    unsafe {
        let mut sa: libc::sigaction = std::mem::zeroed();
        sa.sa_sigaction = handler;
        sa.sa_flags = flags;
        let r = libc::sigaction(sig, &sa, std::ptr::null_mut());
        assert_eq!(r, 0, "sigaction set-up failed");
    }
}

pub fn get_disposition(sig: i32) -> (usize, i32) {
    unsafe {
        let mut sa: libc::sigaction = std::mem::zeroed();
        if libc::sigaction(sig, std::ptr::null(), &mut sa) != 0 {
            return (usize::MAX, 0);
        }
        (sa.sa_sigaction, sa.sa_flags)
    }
}

pub fn set_nonblock(fd: i32) {
    unsafe {
        let fl = libc::fcntl(fd, libc::F_GETFL, 0);
        libc::fcntl(fd, libc::F_SETFL, fl | libc::O_NONBLOCK);
    }
}

/// Fill a descriptor until it would block; returns the number of bytes / datagrams written.
pub fn fill_fd(fd: i32) -> usize {
    let mut n = 0;
    let buf = [b'F'; 1];
    loop {
        let r = unsafe { libc::send(fd, buf.as_ptr() as *const _, 1, libc::MSG_DONTWAIT | libc::MSG_NOSIGNAL) };
        let r = if r < 0 && std::io::Error::last_os_error().raw_os_error() == Some(libc::ENOTSOCK) {
            set_nonblock(fd);
            unsafe { libc::write(fd, buf.as_ptr() as *const _, 1) }
        } else {
            r
        };
        if r <= 0 {
            break;
        }
        n += 1;
        if n > 4_000_000 {
            break;
        }
    }
    n
}

/// Fill a descriptor until it would block, quickly (bulk writes first); the exact count does not
/// matter to the caller.  The descriptor must be non-blocking.
pub fn fill_fast(fd: i32) {
    let big = [b'F'; 4096];
    let mut guard = 0;
    loop {
        let r = unsafe { libc::write(fd, big.as_ptr() as *const _, big.len()) };
        guard += 1;
        if r <= 0 || guard > 100_000 {
            break;
        }
    }
    let mut guard = 0;
    loop {
        let r = unsafe { libc::write(fd, big.as_ptr() as *const _, 1) };
        guard += 1;
        if r <= 0 || guard > 100_000 {
            break;
        }
    }
}

/// Number of bytes (or datagrams) readable right now, draining them.
pub fn drain_fd(fd: i32) -> usize {
    let _g = sim::ShimGuard::new(); // harness I/O: no injected system-call faults
    let mut n = 0usize;
    let mut buf = [0u8; 4096];
    loop {
        let r = unsafe { libc::recv(fd, buf.as_mut_ptr() as *mut _, buf.len(), libc::MSG_DONTWAIT) };
        let r = if r < 0 && std::io::Error::last_os_error().raw_os_error() == Some(libc::ENOTSOCK) {
            let mut p = libc::pollfd { fd, events: libc::POLLIN, revents: 0 };
            if unsafe { libc::poll(&mut p, 1, 0) } <= 0 || (p.revents & libc::POLLIN) == 0 {
                -1
            } else {
                unsafe { libc::read(fd, buf.as_mut_ptr() as *mut _, buf.len()) }
            }
        } else {
            r
        };
        if r <= 0 {
            break;
        }
        n += r as usize;
    }
    n
}

pub fn fd_valid(fd: i32) -> bool {
    unsafe { libc::fcntl(fd, libc::F_GETFD) != -1 }
}
