//! Driver: worker pool, fork-per-run, aggregation, minimisation, replay files, evidence.

use std::collections::HashSet;
use std::io::Write;
use std::time::Instant;

use serde_json::{json, Value};
use sighook_shim::rng::{mix, Rng};
use sighook_shim::shm::{self, Shm};
use sighook_shim::sim::{self, ChooserMode};

use crate::props::{self, Engine, Prop, Tier};

pub struct RunSpec {
    pub prop: &'static Prop,
    pub tier: Tier,
    pub seed: u64,
    pub run: u64,
}

#[derive(Clone, Debug, PartialEq)]
pub enum Verdict {
    Ok,
    Violation { prop: String, oracle: String, msg: String },
    Foreign { prop: String, oracle: String, msg: String },
    Harness(String),
}

#[derive(Clone, Debug)]
pub struct RunResult {
    pub verdict: Verdict,
    pub steps: u64,
    pub switches: u64,
    pub nontrivial: bool,
    pub sig_hash: u64,
    pub wlen: u32,
    pub slen: u32,
    pub wait_status: i32,
    /// CPU time (user + system) the simulated process used, in milliseconds
    pub cpu_ms: u64,
}

impl RunResult {
    fn fingerprint(&self) -> String {
        format!("{:?}|{}|{}|{}|{:x}|{}|{}", self.verdict, self.steps, self.switches, self.nontrivial, self.sig_hash, self.wlen, self.slen)
    }
}

/// Body of the forked child.
fn child_main(spec: &RunSpec, replay: Option<(Vec<u32>, Vec<u32>)>) -> ! {
    if std::env::var("VSIM_HANG_GDB").is_ok() {
        // debugging aid (ptrace is not available in this sandbox): after 4 s of CPU time the
        // thread that is burning it dumps its own backtrace
        extern "C" fn prof(_s: i32) {
            let _g = sim::ShimGuard::new();
            let bt = std::backtrace::Backtrace::force_capture();
            let _ = std::fs::write(format!("/tmp/hang-bt-{}.txt", unsafe { libc::getpid() }), format!("tid {} sim-tid {}\n{}", unsafe { libc::syscall(libc::SYS_gettid) }, sim::tid() as i64, bt));
        }
        unsafe {
            libc::signal(libc::SIGPROF, prof as usize);
            let it = libc::itimerval { it_interval: libc::timeval { tv_sec: 0, tv_usec: 0 }, it_value: libc::timeval { tv_sec: 4, tv_usec: 0 } };
            extern "C" {
                fn setitimer(which: libc::c_int, new: *const libc::itimerval, old: *mut libc::itimerval) -> libc::c_int;
            }
            setitimer(2, &it, std::ptr::null_mut()); // ITIMER_PROF
        }
    }
    // freed memory is poisoned and never reused during a run, except in one run out of eight of
    // the registry-model checks: there the allocator recycles addresses as it does in production
    // (anything keyed by an address only misbehaves when addresses come back)
    let recycle = (spec.prop.id == "C02" || spec.prop.id == "C05") && spec.run % 8 == 6;
    sighook_shim::alloc::QUARANTINE.store(!recycle, std::sync::atomic::Ordering::SeqCst);
    sim::install_panic_hook(std::env::var("VSIM_LOUD").is_err());
    let mode = match replay {
        Some((w, s)) => ChooserMode::Replay { w, wi: 0, s, si: 0 },
        None => ChooserMode::Prng(Rng::new(mix(&[spec.seed, props::prop_hash(spec.prop.id), spec.run]))),
    };
    // the registry's global HashMap takes its hasher keys from the thread that first touches the
    // registry; do that on a fresh thread (fresh, deterministic keys) so that its iteration and drop
    // order is the same in every run, worker and replaying process
    crate::getrandom_state::reset();
    #[allow(deprecated)]
    std::thread::spawn(|| {
        signal_hook_registry::unregister_signal(0x7fff_0000);
    })
    .join()
    .ok();
    sim::init(mode);
    // C03 is about every built-in action and every interrupted operation: a third of its seeded
    // runs use the iterator engine (consumer calls interrupted by nested deliveries, channel
    // exfiltrators sending from inside the handler)
    if spec.prop.id == "C03" && spec.run >= spec.prop.sweep_runs && spec.run % 3 == 2 {
        crate::itersim::run(spec);
    }
    // C05's concurrent part (unique ids, exactly one of two racing unregister(id) succeeds,
    // registry == model under interleavings) runs on the registry engine
    if spec.prop.id == "C05" && spec.run % 3 == 2 {
        crate::regsim::run(spec);
    }
    // C12's "every registration it made has been removed" also under two handles adding the same
    // signal concurrently and with close()/deliveries around: a quarter of its runs use itersim
    // "dropping the object that owns it" (C01) with two handles adding one signal concurrently
    if spec.prop.id == "C01" && spec.run % 8 == 7 {
        crate::itersim::run(spec);
    }
    if spec.prop.id == "C12" && spec.run % 4 == 3 {
        crate::itersim::run(spec);
    }
    match spec.prop.engine {
        Engine::Reg => crate::regsim::run(spec),
        Engine::Chan => crate::chansim::run(spec),
        Engine::Iter => crate::itersim::run(spec),
        Engine::Hist => crate::histsim::run(spec),
    }
}

/// Total CPU ticks (utime + stime, all threads) of a process.
fn cpu_ticks(pid: i32) -> Option<u64> {
    let st = std::fs::read_to_string(format!("/proc/{}/stat", pid)).ok()?;
    let rest = &st[st.rfind(')')? + 2..];
    let f: Vec<&str> = rest.split_whitespace().collect();
    Some(f.get(11)?.parse::<u64>().ok()? + f.get(12)?.parse::<u64>().ok()?)
}

/// Did the process consume CPU during the last 400 ms?  A genuinely hung simulated process
/// (blocked in write/send/read, or every thread parked) does not.
fn cpu_progress(pid: i32) -> bool {
    let a = cpu_ticks(pid);
    std::thread::sleep(std::time::Duration::from_millis(400));
    let b = cpu_ticks(pid);
    match (a, b) {
        (Some(a), Some(b)) => b > a,
        _ => false,
    }
}

fn block_sigchld() {
    unsafe {
        let mut set: libc::sigset_t = std::mem::zeroed();
        libc::sigemptyset(&mut set);
        libc::sigaddset(&mut set, libc::SIGCHLD);
        libc::sigprocmask(libc::SIG_BLOCK, &set, std::ptr::null_mut());
    }
}

const WATCHDOG_MS: i32 = 30_000;
/// C13's only legitimate long wait is a wake that blocks; its correct runs take milliseconds
const WATCHDOG_C13_MS: i32 = 6_000;

/// Fork one simulated process, wait for it, classify the outcome.
pub fn run_one(spec: &RunSpec, replay: Option<(Vec<u32>, Vec<u32>)>) -> RunResult {
    shm::reset();
    let _ = std::io::stdout().flush();
    block_sigchld();
    let pid = unsafe { libc::fork() };
    if pid < 0 {
        eprintln!("fork failed");
        std::process::exit(2);
    }
    if pid == 0 {
        // the simulated process starts with an empty signal mask and default dispositions,
        // whatever the environment that launched the check had blocked or ignored
        unsafe {
            let mut set: libc::sigset_t = std::mem::zeroed();
            libc::sigemptyset(&mut set);
            libc::sigprocmask(libc::SIG_SETMASK, &set, std::ptr::null_mut());
            for s in 1..=64 {
                if s == libc::SIGKILL || s == libc::SIGSTOP || s == 32 || s == 33 {
                    continue;
                }
                let mut sa: libc::sigaction = std::mem::zeroed();
                // like every Rust program: SIGPIPE ignored (set by the runtime before main)
                sa.sa_sigaction = if s == libc::SIGPIPE { libc::SIG_IGN } else { libc::SIG_DFL };
                libc::sigaction(s, &sa, std::ptr::null_mut());
            }
            // a simulated process that burns CPU without ever reaching a scheduling point is
            // stopped by the kernel after 4 s of its own CPU time (load-independent, unlike the
            // wall-clock watchdog): SIGXCPU, classified like a watchdog hit
            let lim = libc::rlimit { rlim_cur: 4, rlim_max: 5 };
            libc::setrlimit(libc::RLIMIT_CPU, &lim);
            // observation only: where a fatal memory fault happened (one shot, then the default
            // action kills the process as it would have anyway)
            for s in [libc::SIGSEGV, libc::SIGBUS] {
                let mut sa: libc::sigaction = std::mem::zeroed();
                sa.sa_sigaction = fault_probe as usize;
                sa.sa_flags = libc::SA_SIGINFO | libc::SA_RESETHAND | libc::SA_NODEFER;
                libc::sigaction(s, &sa, std::ptr::null_mut());
            }
        }
        child_main(spec, replay);
    }
    let mut status: i32 = 0;
    let mut timed_out = false;
    let mut ru: libc::rusage = unsafe { std::mem::zeroed() };
    // Wait for the child with SIGCHLD (blocked in this process, fetched with sigtimedwait): a pidfd
    // poll misses the exit of a multi-threaded child whose leader dies first on some kernels, which
    // cost a full watchdog period per miss.
    unsafe {
        let limit_ms = if spec.prop.id == "C13" { WATCHDOG_C13_MS } else { WATCHDOG_MS } as u128;
        let mut t0 = Instant::now();
        let mut extensions = 0;
        let mut set: libc::sigset_t = std::mem::zeroed();
        libc::sigemptyset(&mut set);
        libc::sigaddset(&mut set, libc::SIGCHLD);
        loop {
            let r = libc::wait4(pid, &mut status, libc::WNOHANG, &mut ru);
            if r == pid {
                break;
            }
            let el = t0.elapsed().as_millis();
            if el >= limit_ms && extensions < 8 && cpu_progress(pid) {
                // slow (a loaded machine), not hung: the child is still burning CPU
                extensions += 1;
                t0 = Instant::now();
                continue;
            }
            if el >= limit_ms {
                timed_out = true;
                if std::env::var("VSIM_HANG_GDB").is_ok() {
                    // debugging aid: dump the state of a hung simulated process before killing it
                    let _ = std::process::Command::new("sh")
                        .arg("-c")
                        .arg(format!("(grep -E 'State|Threads' /proc/{0}/status; for t in /proc/{0}/task/*; do echo $t; cat $t/wchan; echo; grep State $t/status; done; gdb -p {0} -batch -ex 'thread apply all bt 14') > /tmp/hang-{0}.txt 2>&1", pid))
                        .status();
                }
                libc::kill(pid, libc::SIGKILL);
                libc::wait4(pid, &mut status, 0, &mut ru);
                break;
            }
            let rem = (limit_ms - el).min(500);
            let ts = libc::timespec { tv_sec: (rem / 1000) as libc::time_t, tv_nsec: ((rem % 1000) * 1_000_000) as libc::c_long };
            libc::sigtimedwait(&set, std::ptr::null_mut(), &ts);
        }
    }
    let cpu_limit_hit = libc::WIFSIGNALED(status) && (libc::WTERMSIG(status) == libc::SIGXCPU || (libc::WTERMSIG(status) == libc::SIGKILL && !timed_out));
    let mut r = classify(shm::get(), status, timed_out || cpu_limit_hit);
    r.cpu_ms = (ru.ru_utime.tv_sec as u64 + ru.ru_stime.tv_sec as u64) * 1000 + (ru.ru_utime.tv_usec as u64 + ru.ru_stime.tv_usec as u64) / 1000;
    // a violation of another property than the one being checked is not this check's to report
    if let Verdict::Violation { prop, oracle, msg } = &r.verdict {
        if prop != spec.prop.id {
            r.verdict = Verdict::Foreign { prop: prop.clone(), oracle: oracle.clone(), msg: msg.clone() };
        }
    }
    r
}

fn sigs(b: &[u8]) -> String {
    shm::get_str(b)
}

fn classify(sh: &Shm, status: i32, timed_out: bool) -> RunResult {
    let mk = |v: Verdict| RunResult {
        verdict: v,
        steps: sh.steps.max(sh.counters[sim::C_STEPS]),
        switches: sh.switches,
        nontrivial: sh.nontrivial != 0,
        sig_hash: sh.sig_hash,
        wlen: sh.wlen,
        slen: sh.slen,
        wait_status: status,
        cpu_ms: 0,
    };
    let exited = libc::WIFEXITED(status);
    let code = if exited { libc::WEXITSTATUS(status) } else { -1 };
    let signaled = libc::WIFSIGNALED(status);
    let tsig = if signaled { libc::WTERMSIG(status) } else { 0 };
    match sh.verdict {
        shm::V_OK if exited && code == 0 => return mk(Verdict::Ok),
        shm::V_VIOLATION => return mk(Verdict::Violation { prop: sigs(&sh.prop), oracle: sigs(&sh.oracle), msg: sigs(&sh.msg) }),
        shm::V_FOREIGN => return mk(Verdict::Foreign { prop: sigs(&sh.prop), oracle: sigs(&sh.oracle), msg: sigs(&sh.msg) }),
        shm::V_HARNESS => return mk(Verdict::Harness(sigs(&sh.msg))),
        _ => {}
    }
    // the child died without a verdict of its own
    let viol = |prop: String, oracle: &str, msg: String| Verdict::Violation { prop, oracle: oracle.to_string(), msg };
    if sh.expect_set == 3 && signaled {
        // the engine declared: the process is about to be terminated by one of two signals
        // (armed default-action emulation); expect_exit = A | B << 8
        let (a, b) = (sh.expect_exit & 0xff, (sh.expect_exit >> 8) & 0xff);
        if tsig == a || tsig == b {
            return mk(Verdict::Ok);
        }
    }
    if timed_out && sh.in_handler_now > 0 && sigs(&sh.hang_prop).is_empty() {
        // no scheduling point for 4 s of CPU time (or 30 s of wall time without CPU progress) while
        // a signal delivery is on some thread's stack: the delivery spins or blocks
        return mk(viol(
            "C03".into(),
            "delivery-never-returns",
            format!("the simulated process stopped making progress while {} signal deliver{} running (a handler that spins or blocks without reaching a scheduling point); progress marker {}; note: {}", sh.in_handler_now, if sh.in_handler_now == 1 { "y was" } else { "ies were" }, sh.progress, sh.note_str().chars().take(300).collect::<String>()),
        ));
    }
    if timed_out {
        let hp = sigs(&sh.hang_prop);
        if !hp.is_empty() {
            return mk(viol(hp, "hang", format!("the simulated process hung (watchdog or CPU limit without reaching a scheduling point) at progress marker {}", sh.progress)));
        }
        let ev = sh.events();
        let tail: Vec<String> = ev.iter().rev().take(14).rev().map(|e| format!("{}:T{}d{} k{} {:x}/{:x}", e.step, e.tid, e.depth, e.kind, e.a, e.b)).collect();
        return mk(Verdict::Harness(format!("watchdog: child hung at progress {}; note: {}; last events: {}", sh.progress, sh.note_str().chars().take(400).collect::<String>(), tail.join(" | "))));
    }
    if sh.expect_set == 2 {
        // the engine declared: the process must not terminate here
        return mk(viol(
            sigs(&sh.exit_prop),
            "unexpected-termination",
            format!("the process terminated although nothing should have terminated it: wait status {:#x} (exited={}, code={}, signal={}) at progress marker {}; context: {}", status, exited, code, tsig, sh.progress, sigs(&sh.msg)),
        ));
    }
    if sh.expect_set == 1 {
        if exited && code == sh.expect_exit {
            if sh.atexit_ran != 0 {
                return mk(viol("C15".into(), "exit-hooks-ran", format!("the conditional shutdown terminated the process with status {} but exit-time hooks were run ({} marker present); context: {}", code, if sh.atexit_ran == 2 { "at_quick_exit" } else { "atexit" }, sigs(&sh.msg))));
            }
            return mk(Verdict::Ok);
        }
        return mk(viol(
            "C15".into(),
            "exit-status",
            format!("expected the process to terminate with exit status {} at progress marker {}, observed wait status {:#x} (exited={}, code={}, signal={}); note={}", sh.expect_exit, sh.progress, status, exited, code, tsig, sigs(&sh.msg)),
        ));
    }
    if signaled && tsig == libc::SIGABRT && sh.panic_in_handler != 0 {
        return mk(viol("C03".into(), "panic-in-handler", format!("panic inside a signal delivery aborted the process: {}", sigs(&sh.panic_msg))));
    }
    if signaled && tsig == libc::SIGSEGV && sh.fault_seen != 0 && sh.fault_in_handler > 0 && sh.fault_addr <= 1 && sh.fault_pc == sh.fault_addr {
        // an instruction fetch at address 0 or 1 during a delivery: SIG_DFL / SIG_IGN was called
        // as if it were a handler
        return mk(viol(
            "C04".into(),
            "special-disposition-called",
            format!("during a delivery the process jumped to address {} ({}), i.e. a previous default/ignore disposition was invoked as a handler; the process died with SIGSEGV at step {}", sh.fault_addr, if sh.fault_addr == 1 { "SIG_IGN" } else { "SIG_DFL" }, sh.steps),
        ));
    }
    if signaled && (tsig == libc::SIGSEGV || tsig == libc::SIGBUS) {
        let cp = sigs(&sh.crash_prop);
        if !cp.is_empty() {
            return mk(viol(cp, "memory-fault", format!("the simulated process died with signal {} (use of freed or invalid memory) at step {}", tsig, sh.steps)));
        }
    }
    if signaled && tsig == libc::SIGABRT {
        let ap = sigs(&sh.abort_prop);
        if !ap.is_empty() {
            return mk(viol(ap, "process-aborted", format!("the process was aborted (SIGABRT) at progress marker {}; last panic: {}", sh.progress, sigs(&sh.panic_msg))));
        }
    }
    mk(Verdict::Harness(format!(
        "child ended without verdict: wait status {:#x} (exited={}, code={}, signal={}), progress {}, last panic: {}",
        status,
        exited,
        code,
        tsig,
        sh.progress,
        sigs(&sh.panic_msg)
    )))
}

extern "C" fn fault_probe(_sig: i32, info: *mut libc::siginfo_t, ctx: *mut libc::c_void) {
    if !shm::is_set() {
        return;
    }
    let sh = shm::get();
    if sh.fault_seen == 0 {
        sh.fault_seen = 1;
        sh.fault_addr = unsafe { (*info).si_addr() } as u64;
        sh.fault_in_handler = sh.in_handler_now;
        #[cfg(target_arch = "x86_64")]
        {
            let uc = ctx as *const libc::ucontext_t;
            sh.fault_pc = unsafe { (*uc).uc_mcontext.gregs[libc::REG_RIP as usize] } as u64;
        }
        #[cfg(not(target_arch = "x86_64"))]
        {
            let _ = ctx;
            sh.fault_pc = u64::MAX;
        }
    }
}

fn runs_for(prop: &Prop, tier: Tier) -> u64 {
    if let Ok(v) = std::env::var("VERIF_RUNS") {
        if let Ok(n) = v.parse::<u64>() {
            return n;
        }
    }
    match tier {
        Tier::Quick => prop.quick_runs,
        Tier::Thorough => prop.thorough_runs,
    }
}

fn time_cap(tier: Tier) -> f64 {
    if let Ok(v) = std::env::var("VERIF_TIME_CAP") {
        if let Ok(n) = v.parse::<f64>() {
            return n;
        }
    }
    match tier {
        Tier::Quick => 75.0,
        Tier::Thorough => 600.0,
    }
}

fn jobs() -> usize {
    if let Ok(v) = std::env::var("VERIF_JOBS") {
        if let Ok(n) = v.parse::<usize>() {
            return n.max(1);
        }
    }
    let n = unsafe { libc::sysconf(libc::_SC_NPROCESSORS_ONLN) };
    (n.max(1) as usize).min(16)
}

fn seed() -> u64 {
    std::env::var("VERIF_SEED").ok().and_then(|s| s.parse::<u64>().ok()).unwrap_or(1)
}

fn pin(core: usize) {
    unsafe {
        let mut set: libc::cpu_set_t = std::mem::zeroed();
        libc::CPU_SET(core, &mut set);
        libc::sched_setaffinity(0, std::mem::size_of::<libc::cpu_set_t>(), &set);
    }
}

struct WorkerOut {
    runs: u64,
    ok: u64,
    foreign: u64,
    nontrivial: u64,
    steps_total: u64,
    steps_max: u64,
    switches_total: u64,
    counters: Vec<u64>,
    hashes: HashSet<u64>,
    violations: Vec<(u64, String, String, String)>,
    harness: Vec<(u64, String)>,
    foreign_samples: Vec<(u64, String, String, String)>,
    samples: Vec<Value>,
    stopped_by_cap: bool,
}

fn sample_of(spec: &RunSpec, r: &RunResult) -> Value {
    let sh = shm::get();
    let ev = sh.events();
    let evs: Vec<String> = ev.iter().take(40).map(|e| format!("{}:T{}{} {} {:x}", e.step, e.tid, if e.depth > 0 { "^" } else { "" }, crate::util::ev_name(spec.prop, e.kind), e.a)).collect();
    json!({
        "run": spec.run,
        "scenario": sh.note_str(),
        "steps": r.steps,
        "context_switches": r.switches,
        "workload_choices": r.wlen,
        "schedule_choices": r.slen,
        "first_events": evs,
    })
}

fn worker(prop: &'static Prop, tier: Tier, seed: u64, w: usize, nw: usize, total: u64, cap: f64, dir: &str) -> ! {
    pin(w);
    shm::create();
    let t0 = Instant::now();
    let mut out = WorkerOut {
        runs: 0,
        ok: 0,
        foreign: 0,
        nontrivial: 0,
        steps_total: 0,
        steps_max: 0,
        switches_total: 0,
        counters: vec![0; shm::N_COUNTERS],
        hashes: HashSet::new(),
        violations: Vec::new(),
        harness: Vec::new(),
        foreign_samples: Vec::new(),
        samples: Vec::new(),
        stopped_by_cap: false,
    };
    let mut cpu_max_ms = 0u64;
    let mut run = w as u64;
    while run < total {
        if t0.elapsed().as_secs_f64() > cap {
            out.stopped_by_cap = true;
            break;
        }
        // enough evidence that the check fails: do not spend the budget collecting more of it
        // (a violation that hangs the simulated process costs a watchdog period per run)
        if out.violations.len() + out.harness.len() >= 6 {
            out.stopped_by_cap = true;
            break;
        }
        let spec = RunSpec { prop, tier, seed, run };
        let r = run_one(&spec, None);
        out.runs += 1;
        out.steps_total += r.steps;
        out.steps_max = out.steps_max.max(r.steps);
        out.switches_total += r.switches;
        if matches!(r.verdict, Verdict::Ok) {
            cpu_max_ms = cpu_max_ms.max(r.cpu_ms);
        }
        let sh = shm::get();
        for i in 0..shm::N_COUNTERS {
            out.counters[i] += sh.counters[i];
        }
        match &r.verdict {
            Verdict::Ok => {
                out.ok += 1;
                if r.nontrivial {
                    out.nontrivial += 1;
                    if out.hashes.len() < 600_000 {
                        out.hashes.insert(r.sig_hash);
                    }
                    if out.samples.len() < 2 {
                        out.samples.push(sample_of(&spec, &r));
                    }
                }
            }
            Verdict::Violation { prop, oracle, msg } => {
                if out.violations.len() < 50 {
                    out.violations.push((run, prop.clone(), oracle.clone(), msg.clone()));
                }
            }
            Verdict::Foreign { prop, oracle, msg } => {
                out.foreign += 1;
                if out.foreign_samples.len() < 5 {
                    out.foreign_samples.push((run, prop.clone(), oracle.clone(), msg.clone()));
                }
            }
            Verdict::Harness(m) => {
                if out.harness.len() < 20 {
                    out.harness.push((run, m.clone()));
                }
            }
        }
        run += nw as u64;
    }
    let v = json!({
        "runs": out.runs, "ok": out.ok, "foreign": out.foreign, "nontrivial": out.nontrivial,
        "steps_total": out.steps_total, "steps_max": out.steps_max, "switches_total": out.switches_total,
        "counters": out.counters,
        "violations": out.violations.iter().map(|(r,p,o,m)| json!({"run": r, "prop": p, "oracle": o, "msg": m})).collect::<Vec<_>>(),
        "harness": out.harness.iter().map(|(r,m)| json!({"run": r, "msg": m})).collect::<Vec<_>>(),
        "foreign_samples": out.foreign_samples.iter().map(|(r,p,o,m)| json!({"run": r, "prop": p, "oracle": o, "msg": m})).collect::<Vec<_>>(),
        "samples": out.samples,
        "stopped_by_cap": out.stopped_by_cap,
        "cpu_max_ms": cpu_max_ms,
    });
    std::fs::write(format!("{}/w{}.json", dir, w), serde_json::to_vec(&v).unwrap()).unwrap();
    let mut hb: Vec<u8> = Vec::with_capacity(out.hashes.len() * 8);
    for h in out.hashes.iter() {
        hb.extend_from_slice(&h.to_le_bytes());
    }
    std::fs::write(format!("{}/w{}.hashes", dir, w), hb).unwrap();
    unsafe { libc::_exit(0) }
}

fn verif_root() -> String {
    // the binary lives in /verif/sim/target/release; evidence etc. are relative to /verif
    std::env::var("VERIF_ROOT").unwrap_or_else(|_| "/verif".to_string())
}

pub struct Known {
    pub property: String,
    pub status: String,
    pub oracle: String,
    pub signature: String,
    pub what: String,
}

pub fn load_known() -> Vec<Known> {
    let p = format!("{}/known_findings.json", verif_root());
    let mut out = Vec::new();
    if let Ok(b) = std::fs::read(&p) {
        if let Ok(Value::Array(a)) = serde_json::from_slice::<Value>(&b) {
            for e in a {
                let g = |k: &str| e.get(k).and_then(|v| v.as_str()).unwrap_or("").to_string();
                out.push(Known { property: g("property"), status: g("status"), oracle: g("oracle"), signature: g("signature"), what: g("what") });
            }
        }
    }
    out
}

fn known_match<'a>(known: &'a [Known], prop: &str, oracle: &str, msg: &str) -> Option<&'a Known> {
    known.iter().find(|k| k.status == "open" && k.property == prop && k.oracle == oracle && (k.signature.is_empty() || msg.contains(&k.signature)))
}

fn copy_trace() -> (Vec<u32>, Vec<u32>) {
    let sh = shm::get();
    let w: Vec<u32> = sh.w[..sh.wlen as usize].iter().map(|c| c.v).collect();
    let s: Vec<u32> = sh.s[..sh.slen as usize].iter().map(|c| c.v).collect();
    (w, s)
}

fn same_failure(r: &RunResult, prop: &str, oracle: &str) -> bool {
    matches!(&r.verdict, Verdict::Violation { prop: p, oracle: o, .. } if p == prop && o == oracle)
}

/// Shrink the choice sequences while the same oracle of the same property keeps firing.
fn minimise(spec: &RunSpec, w: Vec<u32>, s: Vec<u32>, prop: &str, oracle: &str) -> (Vec<u32>, Vec<u32>, u32) {
    let t0 = Instant::now();
    let mut tries = 0u32;
    let mut w = w;
    let mut s = s;
    let budget_ok = |tries: u32| tries < 400 && t0.elapsed().as_secs_f64() < 60.0;
    // 1. shortest schedule prefix (rest = default 0)
    let (mut lo, mut hi) = (0usize, s.len());
    while lo < hi && budget_ok(tries) {
        let mid = (lo + hi) / 2;
        tries += 1;
        let r = run_one(spec, Some((w.clone(), s[..mid].to_vec())));
        if same_failure(&r, prop, oracle) {
            hi = mid;
        } else {
            lo = mid + 1;
        }
    }
    if hi < s.len() {
        let r = run_one(spec, Some((w.clone(), s[..hi].to_vec())));
        tries += 1;
        if same_failure(&r, prop, oracle) {
            s.truncate(hi);
        }
    }
    // 2. zero chunks of the schedule
    let mut chunk = (s.len() / 2).max(1);
    while chunk >= 1 && budget_ok(tries) {
        let mut i = 0;
        while i < s.len() && budget_ok(tries) {
            let end = (i + chunk).min(s.len());
            if s[i..end].iter().any(|v| *v != 0) {
                let mut c = s.clone();
                for v in c[i..end].iter_mut() {
                    *v = 0;
                }
                tries += 1;
                if same_failure(&run_one(spec, Some((w.clone(), c.clone()))), prop, oracle) {
                    s = c;
                }
            }
            i = end;
        }
        if chunk == 1 {
            break;
        }
        chunk /= 2;
    }
    // 3. simplify workload draws (towards 0)
    let mut i = 0;
    while i < w.len() && budget_ok(tries) {
        if w[i] != 0 {
            let mut c = w.clone();
            c[i] = 0;
            tries += 1;
            if same_failure(&run_one(spec, Some((c.clone(), s.clone()))), prop, oracle) {
                w = c;
            }
        }
        i += 1;
    }
    while s.last() == Some(&0) {
        s.pop();
    }
    (w, s, tries)
}

fn events_json(spec: &RunSpec) -> Vec<Value> {
    let sh = shm::get();
    sh.events()
        .iter()
        .map(|e| json!(format!("step {} T{} depth {} {} a={:#x} b={:#x}", e.step, e.tid, e.depth, crate::util::ev_name(spec.prop, e.kind), e.a, e.b)))
        .collect()
}

/// Re-run a violating run, minimise it, write the replay file, verify it replays.
fn make_replay(spec: &RunSpec, prop: &str, oracle: &str) -> Result<(String, String), String> {
    let r = run_one(spec, None);
    if !same_failure(&r, prop, oracle) {
        return Err(format!("run {} did not reproduce {}:{} when re-run by the driver (got {:?}) - nondeterminism", spec.run, prop, oracle, r.verdict));
    }
    let (w, s) = copy_trace();
    let (orig_w, orig_s) = (w.len(), s.len());
    let (w, s, tries) = minimise(spec, w, s, prop, oracle);
    let r = run_one(spec, Some((w.clone(), s.clone())));
    let msg = match &r.verdict {
        Verdict::Violation { prop: p, oracle: o, msg } if p == prop && o == oracle => msg.clone(),
        other => return Err(format!("minimised trace no longer fails the same way: {:?}", other)),
    };
    let sh = shm::get();
    let root = verif_root();
    std::fs::create_dir_all(format!("{}/replays", root)).ok();
    let path = format!("{}/replays/{}-{}-seed{}-run{}.json", root, spec.prop.id, oracle, spec.seed, spec.run);
    let v = json!({
        "property": spec.prop.id,
        "violated_property": prop,
        "oracle": oracle,
        "engine": format!("{:?}", spec.prop.engine),
        "tier": spec.tier.name(),
        "seed": spec.seed,
        "run": spec.run,
        "message": msg,
        "scenario": sh.note_str(),
        "minimisation": {"candidates_tried": tries, "workload_choices_before": orig_w, "schedule_choices_before": orig_s, "nonzero_schedule_choices_after": s.iter().filter(|v| **v != 0).count()},
        "w": w,
        "s": s,
        "events": events_json(spec),
    });
    std::fs::write(&path, serde_json::to_vec_pretty(&v).unwrap()).map_err(|e| e.to_string())?;
    // verify: replaying the file reproduces the violation
    let r2 = replay_file(&path)?;
    if !same_failure(&r2.1, prop, oracle) {
        return Err(format!("replay file {} does not reproduce: {:?}", path, r2.1.verdict));
    }
    Ok((path, msg))
}

fn replay_file(path: &str) -> Result<(RunSpec, RunResult), String> {
    let b = std::fs::read(path).map_err(|e| format!("{}: {}", path, e))?;
    let v: Value = serde_json::from_slice(&b).map_err(|e| e.to_string())?;
    let id = v["property"].as_str().ok_or("no property")?;
    let prop = props::find(id);
    let tier = Tier::parse(v["tier"].as_str().unwrap_or("quick"));
    let arr = |k: &str| -> Vec<u32> { v[k].as_array().map(|a| a.iter().map(|x| x.as_u64().unwrap_or(0) as u32).collect()).unwrap_or_default() };
    let spec = RunSpec { prop, tier, seed: v["seed"].as_u64().unwrap_or(1), run: v["run"].as_u64().unwrap_or(0) };
    if !shm::is_set() {
        shm::create();
    }
    let r = run_one(&spec, Some((arr("w"), arr("s"))));
    Ok((spec, r))
}

pub fn cmd_replay(path: &str) -> i32 {
    match replay_file(path) {
        Err(e) => {
            eprintln!("replay: {}", e);
            2
        }
        Ok((spec, r)) => match r.verdict {
            Verdict::Violation { prop, oracle, msg } => {
                println!("replayed {} run {}: {} / {}: {}", spec.prop.id, spec.run, prop, oracle, msg);
                println!("VIOLATION property={} replay={}", prop, path);
                1
            }
            other => {
                println!("replay of {} did not violate: {:?}", path, other);
                0
            }
        },
    }
}

pub fn cmd_one(id: &str, tier: &str, seed: u64, run: u64) -> i32 {
    let prop = props::find(id);
    let tier = Tier::parse(tier);
    shm::create();
    let spec = RunSpec { prop, tier, seed, run };
    let r = run_one(&spec, None);
    let sh = shm::get();
    println!("scenario: {}", sh.note_str());
    for e in sh.events() {
        println!("step {:5} T{} d{} {:14} a={:#x} b={:#x}", e.step, e.tid, e.depth, crate::util::ev_name(prop, e.kind), e.a, e.b);
    }
    println!("result: {:?}", r);
    let named: Vec<String> = props::COMMON_PROBES.iter().chain(prop.probes.iter()).filter(|(i, _)| sh.counters[*i] > 0).map(|(i, n)| format!("{}={}", n, sh.counters[*i])).collect();
    println!("counters: {}", named.join(" "));
    0
}

/// Debugging aid: run one run in PRNG mode and again replaying its own trace; print the first
/// differing event.
pub fn cmd_detdiff(id: &str, tier: &str, seed: u64, run: u64) -> i32 {
    let prop = props::find(id);
    let tier = Tier::parse(tier);
    shm::create();
    let spec = RunSpec { prop, tier, seed, run };
    let dump = |sh: &Shm| -> Vec<String> { sh.events().iter().map(|e| format!("step {} T{} d{} {} a={:#x} b={:#x}", e.step, e.tid, e.depth, crate::util::ev_name(prop, e.kind), if e.b == u64::MAX { 0 } else { e.a }, e.b)).collect() };
    let a = run_one(&spec, None);
    let ea = dump(shm::get());
    let (w, s) = copy_trace();
    let b = run_one(&spec, Some((w, s)));
    let eb = dump(shm::get());
    println!("{}\n{}", a.fingerprint(), b.fingerprint());
    for i in 0..ea.len().min(eb.len()) {
        if ea[i] != eb[i] {
            for j in i.saturating_sub(12)..(i + 6).min(ea.len()).min(eb.len()) {
                println!("{} | {}{}", ea[j], eb[j], if ea[j] != eb[j] { "   <<<" } else { "" });
            }
            break;
        }
    }
    0
}

pub fn cmd_determinism(id: &str, tier: &str, n: u64) -> i32 {
    let prop = props::find(id);
    let tier = Tier::parse(tier);
    shm::create();
    let seed = seed();
    let total = runs_for(prop, tier);
    let mut bad = 0;
    for i in 0..n {
        let run = if n >= total { i } else { i * (total / n) };
        let spec = RunSpec { prop, tier, seed, run };
        let dump = |path: &str| {
            let sh = shm::get();
            let v: Vec<String> = sh.events().iter().map(|e| format!("step {} T{} d{} {} a={:#x} b={:#x}", e.step, e.tid, e.depth, crate::util::ev_name(prop, e.kind), if e.b == u64::MAX { 0 } else { e.a }, e.b)).collect();
            std::fs::write(path, v.join("\n")).ok();
        };
        let a = run_one(&spec, None).fingerprint();
        dump("/tmp/det-a.txt");
        let (w, s) = copy_trace();
        // perturb the parent's heap and fd table so that a dependence on addresses or descriptor
        // numbers inherited from the parent would show
        let junk: Vec<Vec<u8>> = (0..(i % 7 + 1)).map(|k| vec![0u8; 24 + 40 * k as usize + (i as usize % 13) * 8]).collect();
        std::mem::forget(junk);
        let b = run_one(&spec, None).fingerprint();
        // and the recorded trace replays to the same fingerprint
        let c = run_one(&spec, Some((w, s))).fingerprint();
        if a != c {
            dump("/tmp/det-c.txt");
        }
        if a != b || a != c {
            bad += 1;
            println!("NONDETERMINISM {} run {}:\n  {}\n  {}\n  {}", id, run, a, b, c);
        }
    }
    println!("determinism {}: {} runs x3, {} mismatches", id, n, bad);
    if bad > 0 {
        2
    } else {
        0
    }
}

pub fn cmd_check(id: &str, tier_s: &str) -> i32 {
    let t0 = Instant::now();
    let prop = props::find(id);
    let tier = Tier::parse(tier_s);
    let seed = seed();
    let nw = jobs();
    let total = runs_for(prop, tier);
    let cap = time_cap(tier);
    let root = verif_root();
    let dir = format!("{}/sim/target/vsim-runs/{}-{}-{}", root, id, tier.name(), std::process::id());
    std::fs::create_dir_all(&dir).expect("run dir");
    println!("vsim check {} {}: seed {} runs {} workers {}", id, tier.name(), seed, total, nw);
    let _ = std::io::stdout().flush();
    let mut pids = Vec::new();
    for w in 0..nw {
        let pid = unsafe { libc::fork() };
        if pid == 0 {
            worker(prop, tier, seed, w, nw, total, cap, &dir);
        }
        pids.push(pid);
    }
    let mut worker_failed = false;
    for pid in pids {
        let mut st = 0;
        unsafe { libc::waitpid(pid, &mut st, 0) };
        if !(libc::WIFEXITED(st) && libc::WEXITSTATUS(st) == 0) {
            worker_failed = true;
        }
    }
    if worker_failed {
        println!("HARNESS-ERROR: a worker process died");
        return 2;
    }
    // merge
    let mut runs = 0u64;
    let mut ok = 0u64;
    let mut foreign = 0u64;
    let mut nontrivial = 0u64;
    let mut steps_total = 0u64;
    let mut steps_max = 0u64;
    let mut switches_total = 0u64;
    let mut counters = vec![0u64; shm::N_COUNTERS];
    let mut hashes: HashSet<u64> = HashSet::new();
    let mut violations: Vec<(u64, String, String, String)> = Vec::new();
    let mut harness: Vec<(u64, String)> = Vec::new();
    let mut foreign_samples: Vec<Value> = Vec::new();
    let mut samples: Vec<Value> = Vec::new();
    let mut capped = false;
    let mut cpu_max_ms = 0u64;
    for w in 0..nw {
        let b = std::fs::read(format!("{}/w{}.json", dir, w)).expect("worker output");
        let v: Value = serde_json::from_slice(&b).expect("worker json");
        runs += v["runs"].as_u64().unwrap();
        ok += v["ok"].as_u64().unwrap();
        foreign += v["foreign"].as_u64().unwrap();
        nontrivial += v["nontrivial"].as_u64().unwrap();
        steps_total += v["steps_total"].as_u64().unwrap();
        steps_max = steps_max.max(v["steps_max"].as_u64().unwrap());
        switches_total += v["switches_total"].as_u64().unwrap();
        capped |= v["stopped_by_cap"].as_bool().unwrap_or(false);
        cpu_max_ms = cpu_max_ms.max(v["cpu_max_ms"].as_u64().unwrap_or(0));
        for (i, c) in v["counters"].as_array().unwrap().iter().enumerate() {
            counters[i] += c.as_u64().unwrap();
        }
        for x in v["violations"].as_array().unwrap() {
            violations.push((x["run"].as_u64().unwrap(), x["prop"].as_str().unwrap().into(), x["oracle"].as_str().unwrap().into(), x["msg"].as_str().unwrap().into()));
        }
        for x in v["harness"].as_array().unwrap() {
            harness.push((x["run"].as_u64().unwrap(), x["msg"].as_str().unwrap().into()));
        }
        for x in v["foreign_samples"].as_array().unwrap() {
            if foreign_samples.len() < 5 {
                foreign_samples.push(x.clone());
            }
        }
        for x in v["samples"].as_array().unwrap() {
            if samples.len() < 4 {
                samples.push(x.clone());
            }
        }
        let hb = std::fs::read(format!("{}/w{}.hashes", dir, w)).unwrap_or_default();
        for c in hb.chunks_exact(8) {
            hashes.insert(u64::from_le_bytes(c.try_into().unwrap()));
        }
    }
    std::fs::remove_dir_all(&dir).ok();
    violations.sort();
    harness.sort();

    // determinism tripwire: 48 of this check's runs, twice each (+ replay of the recorded trace)
    shm::create();
    let mut nondet = Vec::new();
    let trip = 48u64.min(runs);
    for i in 0..trip {
        let run = i * (runs.max(1) / trip.max(1)).max(1);
        let spec = RunSpec { prop, tier, seed, run };
        let a = run_one(&spec, None).fingerprint();
        let (w, s) = copy_trace();
        let b = run_one(&spec, Some((w, s))).fingerprint();
        if a != b {
            nondet.push(format!("run {}: {} vs {}", run, a, b));
        }
    }

    // violations -> replay files (one per distinct oracle, lowest run first)
    let known = load_known();
    let mut exit = 0;
    let mut seen_oracles: HashSet<(String, String)> = HashSet::new();
    let mut reported: Vec<Value> = Vec::new();
    let mut known_hits: Vec<Value> = Vec::new();
    for (run, vp, oracle, msg) in violations.iter() {
        let known_here = known_match(&known, vp, oracle, msg);
        let key = (vp.clone(), if known_here.is_some() { format!("known:{}", oracle) } else { oracle.clone() });
        if seen_oracles.contains(&key) || seen_oracles.len() >= 4 {
            continue;
        }
        seen_oracles.insert(key);
        let spec = RunSpec { prop, tier, seed, run: *run };
        match make_replay(&spec, vp, oracle) {
            Ok((path, mmsg)) => {
                if let Some(k) = known_match(&known, vp, oracle, &mmsg) {
                    println!("KNOWN-FINDING: property={} {} [{}] replay={}", vp, k.what, oracle, path);
                    known_hits.push(json!({"oracle": oracle, "run": run, "replay": path, "message": mmsg}));
                } else {
                    println!("violated: {} / {} in run {}: {}", vp, oracle, run, mmsg);
                    println!("VIOLATION property={} replay={}", vp, path);
                    reported.push(json!({"oracle": oracle, "run": run, "replay": path, "message": mmsg}));
                    exit = 1;
                }
            }
            Err(e) => {
                println!("HARNESS-ERROR: could not produce a replay for run {} ({} / {}): {}", run, vp, oracle, e);
                harness.push((*run, e));
            }
        }
    }
    let wall = t0.elapsed().as_secs_f64();
    let named = |tbl: &[(usize, &str)]| -> serde_json::Map<String, Value> {
        let mut m = serde_json::Map::new();
        for (i, n) in tbl {
            m.insert(n.to_string(), json!(counters[*i]));
        }
        m
    };
    let mut holes: Vec<String> = Vec::new();
    for (i, n) in prop.probes {
        if counters[*i] == 0 {
            holes.push(n.to_string());
        }
    }
    let distinct = hashes.len() as u64;
    let sweep_total = prop.sweep_runs.min(total);
    let ev = json!({
        "property_id": id,
        "tier": tier.name(),
        "seed": seed,
        "level": prop.level,
        "coverage": {
            "evaluations": runs,
            "distinct_nontrivial": distinct,
            "rule": prop.rule,
            "samples": samples,
            "nontrivial_runs": nontrivial,
            "runs_ok": ok,
            "runs_ended_by_other_propertys_violation": foreign,
            "enumerated_sweep_cases": sweep_total,
            "sweep_exhaustive": sweep_total > 0 && runs >= sweep_total,
            "seeded_runs": runs.saturating_sub(sweep_total),
            "simulated_steps_total": steps_total,
            "simulated_steps_max_per_run": steps_max,
            "simulated_time_note": "this code base has no clock or timer; simulated time is counted in scheduling steps",
            "context_switches_total": switches_total,
            "runs_per_second": runs as f64 / wall.max(0.001),
            "seeds_per_hour": runs as f64 / wall.max(0.001) * 3600.0,
            "workers": nw,
            "stopped_by_time_cap": capped,
            "cpu_ms_max_of_a_passing_run_limit_4000": cpu_max_ms,
            "faults_and_probes_fired": named(props::COMMON_PROBES),
            "property_probes": named(prop.probes),
            "coverage_holes_probe_at_zero": holes,
            "components_real": prop.real,
            "components_stub_or_model": prop.stub,
            "determinism_tripwire": {"runs_checked": trip, "mismatches": nondet.len()},
            "violations_reported": reported,
            "known_findings_hit": known_hits,
            "other_property_violations_seen": foreign_samples,
            "harness_errors": harness.iter().take(5).map(|(r, m)| json!({"run": r, "msg": m})).collect::<Vec<_>>(),
        },
        "assumptions": prop.assumptions,
        "wall_s": wall,
        "violations": reported.len(),
    });
    std::fs::create_dir_all(format!("{}/evidence", root)).ok();
    std::fs::write(format!("{}/evidence/{}.json", root, id), serde_json::to_vec_pretty(&ev).unwrap()).expect("evidence");
    println!(
        "{} {}: {} runs ({} ok, {} non-trivial, {} distinct signatures, {} foreign), {:.0} runs/s, {:.1}s, {} violations reported, {} known",
        id,
        tier.name(),
        runs,
        ok,
        nontrivial,
        distinct,
        foreign,
        runs as f64 / wall.max(0.001),
        wall,
        ev["violations"],
        ev["coverage"]["known_findings_hit"].as_array().unwrap().len()
    );
    if !nondet.is_empty() {
        println!("HARNESS-ERROR: nondeterminism detected: {}", nondet[0]);
        return 2;
    }
    if !harness.is_empty() {
        println!("HARNESS-ERROR: {} runs ended with a harness error, first: run {}: {}", harness.len(), harness[0].0, harness[0].1);
        if exit == 0 {
            return 2;
        }
    }
    exit
}
