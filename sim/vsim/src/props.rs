//! Property table: which engine serves a property, how many runs a tier makes, what the evidence
//! file says about it.

use sighook_shim::sim::*;

#[derive(Clone, Copy, PartialEq, Debug)]
pub enum Tier {
    Quick,
    Thorough,
}

impl Tier {
    pub fn parse(s: &str) -> Tier {
        match s {
            "quick" => Tier::Quick,
            "thorough" => Tier::Thorough,
            _ => {
                eprintln!("unknown tier {}", s);
                std::process::exit(2)
            }
        }
    }
    pub fn name(&self) -> &'static str {
        match self {
            Tier::Quick => "quick",
            Tier::Thorough => "thorough",
        }
    }
}

#[derive(Clone, Copy, PartialEq, Debug)]
pub enum Engine {
    Reg,
    Chan,
    Iter,
    Hist,
}

pub struct Prop {
    pub id: &'static str,
    pub engine: Engine,
    pub level: &'static str,
    /// run indices below this number are an enumerated sweep (fault enumeration), the rest seeded
    pub sweep_runs: u64,
    pub quick_runs: u64,
    pub thorough_runs: u64,
    pub rule: &'static str,
    pub probes: &'static [(usize, &'static str)],
    pub real: &'static [&'static str],
    pub stub: &'static [&'static str],
    pub assumptions: &'static [&'static str],
}

pub const COMMON_PROBES: &[(usize, &str)] = &[
    (C_INJECTED, "fault:nested_delivery_injected"),
    (C_CAS_SPUR, "fault:weak_cas_spurious_failure"),
    (C_STALE, "fault:stale_weak_memory_read_returned"),
    (C_FREEZE, "fault:thread_freeze"),
    (C_BLOCK_FD, "blocked_on_self_pipe"),
    (C_BLOCK_MUTEX, "blocked_on_mutex"),
    (C_SPIN_POINTS, "spin_or_yield_points"),
    (C_WAKE_EAGAIN, "fault:wake_found_pipe_full"),
    (C_SYS_EINTR, "fault:blocking_recv_interrupted_EINTR"),
    (C_HB_CHECKS, "happens_before_checks_at_free"),
    (C_DELIVERIES, "deliveries_dispatched_to_a_handler"),
    (C_DELIVER_DEFAULT, "deliveries_with_default_or_ignore_disposition"),
    (C_FORCED_FAIR, "fairness_forced_schedule"),
    (C_QUIESCENT, "quiescence_points"),
    (C_FOREIGN, "violations_of_other_properties_observed"),
    (C_SILENT_SKIPPED, "silent_location_ops_not_scheduled"),
];

// engine counters (>= C_ENGINE_BASE)
pub const E_CAS_REAL_FAIL: usize = C_ENGINE_BASE - 1;
pub const E_READ_ACROSS_SWAP: usize = C_ENGINE_BASE;
pub const E_NESTED_IN_STORE: usize = C_ENGINE_BASE + 1;
pub const E_RACE_FALLBACK: usize = C_ENGINE_BASE + 2;
pub const E_DELIVERY_OVERLAP_MUT: usize = C_ENGINE_BASE + 3;
pub const E_LIN_STATES: usize = C_ENGINE_BASE + 4;
pub const E_MUT_PANIC: usize = C_ENGINE_BASE + 5;
pub const E_SOLO_COMPLETIONS: usize = C_ENGINE_BASE + 6;
pub const E_DELIVERY_INSIDE_OP: usize = C_ENGINE_BASE + 7;
pub const E_REMOVALS: usize = C_ENGINE_BASE + 8;
pub const E_PREV_CHAINED: usize = C_ENGINE_BASE + 9;
pub const E_LIB_HANDLER_NO_SLOT: usize = C_ENGINE_BASE + 10;
pub const E_SWEEP_OUT_OF_RANGE: usize = C_ENGINE_BASE + 11;
pub const E_CHAN_FULL_DISCARD: usize = C_ENGINE_BASE + 12;
pub const E_CHAN_EMPTY_NONE: usize = C_ENGINE_BASE + 13;
pub const E_CHAN_NESTED: usize = C_ENGINE_BASE + 14;
pub const E_CHAN_POS34: usize = C_ENGINE_BASE + 15;
pub const E_CHAN_OPS: usize = C_ENGINE_BASE + 16;
pub const E_ITER_YIELDS: usize = C_ENGINE_BASE + 17;
pub const E_ITER_STORE_DURING_SCAN: usize = C_ENGINE_BASE + 18;
pub const E_ITER_CLOSE_BETWEEN_CHECKS: usize = C_ENGINE_BASE + 19;
pub const E_ITER_PENDING: usize = C_ENGINE_BASE + 20;
pub const E_ITER_QUIESCENT_EVAL: usize = C_ENGINE_BASE + 21;
pub const E_ITER_CLOSE_WHILE_BLOCKED: usize = C_ENGINE_BASE + 22;
pub const E_ITER_RECORDS: usize = C_ENGINE_BASE + 23;
pub const E_ITER_BURST_OVERFLOW: usize = C_ENGINE_BASE + 24;
pub const E_HIST_OPS: usize = C_ENGINE_BASE + 25;
pub const E_HIST_REJECTED: usize = C_ENGINE_BASE + 26;
pub const E_HIST_DELIVERIES: usize = C_ENGINE_BASE + 27;
pub const E_HIST_CROSSCHECK: usize = C_ENGINE_BASE + 28;
pub const E_SHUTDOWN_EXITS: usize = C_ENGINE_BASE + 29;
pub const E_PIPE_FULL: usize = C_ENGINE_BASE + 30;
pub const E_FD_REUSE_PROBE: usize = C_ENGINE_BASE + 31;
pub const E_ITER_ADD_RACE: usize = C_ENGINE_BASE + 32;
pub const E_DRAIN_SOLO: usize = C_ENGINE_BASE + 33;
pub const E_POISONED: usize = C_ENGINE_BASE + 34;
pub const E_CLOSE_COUNTED: usize = C_ENGINE_BASE + 35;
pub const E_GEN_FLIP_CHECKS: usize = C_ENGINE_BASE + 36;
pub const E_CONCURRENT_ADD: usize = C_ENGINE_BASE + 37;
pub const E_FOREIGN_INSTALL: usize = C_ENGINE_BASE + 38;
pub const E_LONG_STALL: usize = C_ENGINE_BASE + 39;
pub const E_ITER_FULL_PIPE: usize = C_ENGINE_BASE + 40;
pub const E_ITER_REACTOR_TURNS: usize = C_ENGINE_BASE + 41;
pub const E_ITER_CB_ERRORS: usize = C_ENGINE_BASE + 42;
pub const E_CHAN_DROP_PANIC: usize = C_ENGINE_BASE + 43;
pub const E_ITER_MIO_POLLS: usize = C_ENGINE_BASE + 44;
pub const E_LOW_FD: usize = C_ENGINE_BASE + 45;
pub const E_NESTED_IN_FOREIGN: usize = C_ENGINE_BASE + 46;
pub const E_ITER_MIO_REREG: usize = C_ENGINE_BASE + 47;
pub const E_ITER_WAKER_CHANGED: usize = C_ENGINE_BASE + 48;

pub const REG_REAL: &[&str] = &[
    "signal-hook-registry (half_lock.rs, lib.rs): real code from /repo",
    "kernel signal dispositions via real sigaction(2)",
    "std Mutex poisoning, Arc, Once, HashMap/BTreeMap, system allocator (wrapped)",
    "process crash/exit status of the forked run",
];
pub const REG_STUB: &[&str] = &[
    "thread scheduling (simulator baton)",
    "visibility of atomics (vector-clock / view model over the real atomic values)",
    "asynchronous signal arrival (direct call of the kernel-reported disposition at a chosen scheduling point)",
];

pub const PROPS: &[Prop] = &[
    Prop {
        id: "C01",
        engine: Engine::Reg,
        level: "exploration",
        sweep_runs: 0,
        quick_runs: 120_000,
        thorough_runs: 3_000_000,
        rule: "seeded scenarios: 1-3 mutator threads (register/register_sigaction/unregister/unregister_signal on live, stale and foreign ids), 0-2 deliverer threads, nested deliveries injected at scheduling points incl. inside store(); schedule, policy, silent-location and weak-memory knobs drawn per run. Non-trivial: a read section was open on some thread when a snapshot was swapped, or a nested delivery ran inside store(). Distinct: by schedule signature (hash of the run's (thread, op kind, location, handler depth) sequence).",
        probes: &[
            (E_READ_ACROSS_SWAP, "read_section_open_across_swap"),
            (E_NESTED_IN_STORE, "nested_delivery_inside_store"),
            (C_BARRIER_LOOPED, "barrier_looped_at_least_once"),
            (E_REMOVALS, "successful_removals_checked"),
            (E_LONG_STALL, "fault:delivery_stalled_for_a_million_writer_spins"),
        ],
        real: REG_REAL,
        stub: REG_STUB,
        assumptions: &["sp granularity = every shared-memory operation of the hooked files", "weak-memory layer under-approximates C11 (append-only mo, RMWs read newest, SC as fences)"],
    },
    Prop {
        id: "C02",
        engine: Engine::Reg,
        level: "exploration",
        sweep_runs: 0,
        quick_runs: 120_000,
        thorough_runs: 3_000_000,
        rule: "same scenario family as C01 with per-delivery tag logs; oracle = linearisability search (Wing-Gong with memo) of mutator ops and deliveries against the per-signal ordered-list model. Non-trivial: a delivery overlapped at least one successful mutation of its own signal. Distinct: by schedule signature.",
        probes: &[(E_DELIVERY_OVERLAP_MUT, "delivery_overlapped_mutation_of_its_signal"), (E_LIN_STATES, "linearisation_search_states")],
        real: REG_REAL,
        stub: REG_STUB,
        assumptions: &["deliveries are modelled as one atomic read of the registry state (that is the property's wording)"],
    },
    Prop {
        id: "C03",
        engine: Engine::Reg,
        level: "fault_enumeration",
        sweep_runs: 2400,
        quick_runs: 80_000,
        thorough_runs: 2_000_000,
        rule: "sweep: fixed two-operation scenarios x every scheduling-point index of the mutator/consumer operation x {nested delivery at that point, freeze everything there and run the delivery solo on another thread} with all built-in actions registered; then seeded search. Non-trivial: a delivery landed strictly inside a mutator/consumer operation. Distinct: by schedule signature.",
        probes: &[(E_DELIVERY_INSIDE_OP, "delivery_inside_operation"), (E_SWEEP_OUT_OF_RANGE, "sweep_index_beyond_operation_end")],
        real: REG_REAL,
        stub: REG_STUB,
        assumptions: &["flag.rs atomics are the caller's std atomics (no scheduling point)", "allocator oracle sees Rust global-allocator calls only"],
    },
    Prop {
        id: "C04",
        engine: Engine::Reg,
        level: "exploration",
        sweep_runs: 0,
        quick_runs: 120_000,
        thorough_runs: 3_000_000,
        rule: "previous disposition per signal drawn from {default, ignore, plain handler, siginfo handler}; first registrations of 1-3 signals on 1-2 threads, deliveries on other threads and nested at every scheduling point incl. around sigaction() and the publishing swap. Non-trivial: a delivery was dispatched to the library's handler while the signal's slot was not yet published (race-fallback path) with a real previous handler. Distinct: by schedule signature.",
        probes: &[(E_RACE_FALLBACK, "delivery_took_race_fallback_path"), (E_PREV_CHAINED, "previous_handler_chained"), (E_LIB_HANDLER_NO_SLOT, "library_handler_ran_without_slot"), (E_FOREIGN_INSTALL, "fault:foreign_handler_replaced_before_takeover")],
        real: REG_REAL,
        stub: REG_STUB,
        assumptions: &["nobody but the library changes dispositions after set-up (the property's own precondition)"],
    },
    Prop {
        id: "C18",
        engine: Engine::Reg,
        level: "exploration",
        sweep_runs: 0,
        quick_runs: 120_000,
        thorough_runs: 3_000_000,
        rule: "2-3 mutator threads incl. panicking mutators (forbidden signal; action whose Drop panics while the writer mutex is held), finite deliveries; oracles: scheduler deadlock/livelock verdicts, every mutator call returns, quiescent solo completion within 64 own steps. Non-trivial: a mutator blocked on the writer mutex or the barrier looped. Distinct: by schedule signature.",
        probes: &[(E_MUT_PANIC, "mutator_panicked_and_was_caught"), (E_DRAIN_SOLO, "quiescent_solo_completion_checked"), (C_BARRIER_LOOPED, "barrier_looped_at_least_once"), (E_POISONED, "writer_mutex_poisoned"), (C_FLIP_WATCH, "barrier_completions_checked_after_pre_switch_readers_left"), (C_STALLED_READER, "fault:later_reader_stalled_inside_read_section")],
        real: REG_REAL,
        stub: REG_STUB,
        assumptions: &["fair scheduler: a runnable non-spinning thread runs at least every 200 steps", "blind spot: a barrier demanding both slots idle simultaneously differs only under an unbounded stream of overlapping deliveries"],
    },
];

pub fn find(id: &str) -> &'static Prop {
    for p in PROPS.iter().chain(crate::chansim::PROPS.iter()).chain(crate::itersim::PROPS.iter()).chain(crate::histsim::PROPS.iter()) {
        if p.id == id {
            return p;
        }
    }
    eprintln!("unknown property {}", id);
    std::process::exit(2)
}

pub fn prop_hash(id: &str) -> u64 {
    let mut h = 0u64;
    for b in id.bytes() {
        h = h * 131 + b as u64;
    }
    h
}
