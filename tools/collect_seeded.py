#!/usr/bin/env python3
"""Collect sub-agent mutants into /verif/seeded/<id>/ : patch.diff (re-based onto /repo HEAD), the
demonstration, meta.json (property, what it needs, independent confirmation, which check catches it).
usage: collect_seeded.py <id> <worktree> <variant> <check props comma-separated> [runs]"""
import subprocess, sys, os, json, shutil, glob, re
sid, wt, var, props = sys.argv[1], sys.argv[2], sys.argv[3], sys.argv[4].split(",")
runs = sys.argv[5] if len(sys.argv) > 5 else "100000"
src = os.path.join(wt, "out", var)
dst = os.path.join("/verif/seeded", sid)
os.makedirs(dst, exist_ok=True)
def sh(cmd, cwd="/verif", env=None):
    e = dict(os.environ); e.update(env or {})
    r = subprocess.run(cmd, shell=True, cwd=cwd, capture_output=True, text=True, env=e)
    return r.returncode, r.stdout + r.stderr
assert sh("git -C /repo status --porcelain --untracked-files=no")[1].strip() == "", "/repo not clean"
p = os.path.join(src, "patch.diff")
rc, o = sh(f"git -C /repo apply {p} 2>/dev/null || git -C /repo apply -3 {p} 2>/dev/null || (cd /repo && patch -p1 -s --fuzz=3 < {p})")
sh("git -C /repo reset -q")
rc, diff = sh("git -C /repo diff")
assert diff.strip(), "patch did not apply"
open(os.path.join(dst, "patch.diff"), "w").write(diff)
caught = {}
for prop in props:
    rc, out = sh(f"./check {prop} quick", env={"VERIF_RUNS": runs})
    viol = [l for l in out.splitlines() if l.startswith("violated:")]
    caught[prop] = {"exit": rc, "violation_line_printed": f"VIOLATION property={prop}" in out,
                    "first_violations": [v[:300] for v in viol[:3]],
                    "summary": [l for l in out.splitlines() if l.startswith(prop + " quick")][:1]}
sh("git -C /repo checkout -- .")
assert sh(f"git -C /repo apply --check {dst}/patch.diff")[0] == 0, "stored patch does not apply cleanly"
for f in glob.glob(os.path.join(src, "*")):
    b = os.path.basename(f)
    if b in ("patch.diff",) or b.endswith(".log") or b == "target":
        continue
    if os.path.isdir(f):
        shutil.copytree(f, os.path.join(dst, b), dirs_exist_ok=True, ignore=shutil.ignore_patterns("target", "Cargo.lock"))
    else:
        shutil.copy(f, os.path.join(dst, "agent_meta.json" if b == "meta.json" else b))
am = {}
try: am = json.load(open(os.path.join(src, "meta.json")))
except Exception: pass
conf = None
for lg in glob.glob("/tmp/confirm*.log"):
    for line in open(lg):
        try: j = json.loads(line)
        except Exception: continue
        if j.get("worktree") == wt and j.get("variant") == var:
            conf = j
meta = {"id": sid, "property": am.get("property", props[0]), "breaks": props[0],
        "what_breaks": am.get("what_breaks"), "needs_to_manifest": am.get("needs_to_manifest"),
        "files_changed": am.get("files_changed"),
        "independent_confirmation_in_scratch_worktree": conf or "see notes",
        "caught_by": caught,
        "how_checked": f"git -C /repo apply seeded/{sid}/patch.diff; VERIF_RUNS={runs} ./check <prop> quick; git -C /repo checkout -- ."}
json.dump(meta, open(os.path.join(dst, "meta.json"), "w"), indent=1)
print(sid, {k: (v["violation_line_printed"], (v["first_violations"] or [""])[0][:120]) for k, v in caught.items()})
