#!/usr/bin/env python3
"""Regenerates /verif/MANIFEST.json (kept in git; this script is only a convenience)."""
import json, subprocess
TECH = "deterministic simulation with fault injection: seeded search over schedules, nested-interrupt points and faults; real code under a baton scheduler with a vector-clock / view memory model; replayable minimised choice traces"
def chk(pid, cat, text, note, tech, engine, ref):
    return {"property_id": pid, "quick_cmd": f"./check {pid} quick", "thorough_cmd": f"./check {pid} thorough",
            "evidence_file": f"/verif/evidence/{pid}.json", "replay_cmd_template": f"./check {pid} --replay {{path}}",
            "engine": engine, "level_claimed": {"category": cat, "text": text, "design_ref": ref}, "level_note": note, "technique": tech}
CHECKS = {
 "C01": ("exploration","Seeded search over interleavings of mutators, deliveries and nested deliveries of the real registry code; temporal + happens-before oracles on snapshot alloc/read/free events, API-level canary oracle. A clean batch is evidence, not proof.","sp granularity = shared-memory ops of hooked files; memory model under-approximates C11; bounds: <=5 threads, <=10 mutator ops per run",TECH,"regsim"),
 "C02": ("exploration","Seeded search; every run's history of mutator calls and deliveries is checked for linearisability against the per-signal ordered-list model (deliveries = atomic reads).","as C01; histories <= 60 events",TECH+"; Wing-Gong linearisability oracle","regsim"),
 "C03": ("fault_enumeration","Enumerated sweep: 12 two-operation scenarios x every scheduling point of the interrupted operation x {nested delivery, freeze-all + solo delivery}, all built-in actions; then seeded search (registry and iterator workloads, armed conditional-default with sigprocmask/raise as scheduling points). Oracles: no lock/yield/spin/alloc/free/panic inside a delivery, bounded own steps.","allocator oracle sees the Rust global allocator only; flag.rs atomics are caller-owned std atomics",TECH+"; crash-point style enumeration of interrupt/freeze points","regsim"),
 "C04": ("exploration","Seeded search over arrival instants relative to first registrations with previous disposition in {default, ignore, plain, siginfo}; per-delivery oracle on the harness-installed foreign handler's call log (foreign handlers are interruptible: other signals nest inside them).","nobody but the library changes dispositions after set-up",TECH,"regsim"),
 "C05": ("exploration","Seeded histories (5-400 ops) over the whole registry API on all catchable signals (incl. SIGILL/SIGFPE through the unchecked entry points), checked op by op against a reference model incl. the kernel-visible disposition; concurrent id-uniqueness part in regsim.","EINTR clause replaced by the SA_RESTART flag query",TECH+"; reference-model conformance over seeded histories with rejected-call faults","histsim"),
 "C06": ("exploration","Seeded search over producer/consumer/nested-send interleavings incl. weak-memory stale reads; history oracle with definite-order clauses (a)-(e); sequential scripts against the exact 5-deep FIFO.","view model under-approximates C11",TECH,"chansim"),
 "C07": ("exploration","Same runs; FastTrack happens-before check on cell accesses built from the declared orderings; per-token drop accounting, also when the channel is dropped with values in flight and one payload destructor panics.","same-thread nested accesses invisible to vector clocks (covered by drop-site rule)",TECH,"chansim"),
 "C08": ("fault_enumeration","Enumerated sweep: channel state x op x every scheduling point x nested op x spurious-CAS rate with everybody else frozen; then seeded search with freeze and spurious-CAS faults. Oracles: own-step bound, no wait, no panic.","<= 3 consecutive spurious weak-CAS failures",TECH+"; crash-point style enumeration","chansim"),
 "C09": ("exploration","Seeded search over consumer (wait/forever/pending/poll/tokio stream/mio event loop) x deliverers x nested deliveries on the consumer x add_signal/close controller; quiescent no-lost-signal oracle.","reactor behind poll_signal is a stub in 3/4 of the runs; 1/8 drive the real tokio adapter and 1/8 the real signal-hook-mio adapter (all four mio versions) on a real edge-triggered mio::Poll; pipes are real kernel objects never blocked on; faults: EINTR on the blocking read, full self-pipe, reactor turned by another thread, mio source re-armed between polls, range-edge signal numbers",TECH,"itersim"),
 "C10": ("exploration","Same runs with bursts and unwatched signals; yields <= deliveries, watched only, info records byte-identical to one delivery, per-signal order; si_code rotates over all cause classes and a yielded Origin must equal an independent reading of one delivery's raw bytes.","as C09",TECH,"itersim"),
 "C11": ("exploration","Same engine with 1-3 handle clones closing at arbitrary instants; sticky is_closed, bounded termination, poll contract (Pending only after a false readiness answer in the same call).","1/4 of the runs drive the real tokio adapter (half of them with a second thread turning the I/O driver, half with a different waker on every poll), 1/64 the real async-std adapter; Arc reference counts of the iterator back-end are scheduling points",TECH,"itersim"),
 "C12": ("exploration","Seeded histories over new/with_pipe/add_signal(valid|watched|forbidden|negative|too large|OS-rejected)/handles/close/drop with panics caught, one forked process per history; reference model of the watched set + independent witness flags.","single simulated thread; the fault dimension is the rejected call",TECH+"; reference-model conformance, process-abort observation","histsim"),
 "C13": ("fault_enumeration","Enumerated grid: descriptor kind x blocking mode x fill level x burst length x entry point x ending, plus seeded histories (a fifth of them with the write end on descriptor 0); oracles on bytes read back, would-block probe, fd validity and fd-number reuse probe.","wall-clock only as a watchdog for a blocking wake",TECH+"; configuration x fault enumeration","histsim"),
 "C14": ("fault_enumeration","Enumerated: every registration entry point x signal in [-2,130] plus extremes x {fresh, after other registrations, same number through an unchecked entry point before, instance already watching the number modulo 128}, each in its own forked process under catch_unwind; dispositions of all 64 signals bit-identical before/after, canaries released.","none beyond the kernel being the real one",TECH+"; rejected call as injected fault","histsim"),
 "C15": ("exploration","Seeded arm/disarm/deliver histories per forked process, both registration orders, statuses 0..255; parent compares the real wait status with the reference model's prediction; atexit and at_quick_exit markers must be absent.","op-granular interleaving only",TECH+"; process-exit observation against a reference model","histsim"),
 "C18": ("exploration","Seeded search with panicking mutators; scheduler deadlock/livelock verdicts (fair scheduler, finite deliveries) and quiescent solo completion within 64 own steps.","fairness bound 200 steps; simultaneous-idle blind spot stated in DESIGN.md",TECH,"regsim"),
}
import sys
claimed = sys.argv[1:] if len(sys.argv) > 1 else []
NA = {
 "C16": "per-signal input sweep whose only oracle is the real kernel's default disposition observed in paired forked probes: no schedule, clock, fault or history for a simulator to own (DESIGN.md section 5)",
 "C17": "Origin::extract is a pure function of one siginfo_t; the rest is observation of what the real kernel delivers for real asynchronous senders: input generation plus runtime monitoring, not simulation (DESIGN.md section 5)",
}
checks = []; na = []
for pid in sorted(set(list(CHECKS) + list(NA))):
    if pid in claimed:
        c = CHECKS[pid]; checks.append(chk(pid, c[0], c[1], c[2], c[3], c[4], f"DESIGN.md section 3 / {pid}"))
    elif pid in NA:
        na.append({"property_id": pid, "reason": NA[pid]})
    else:
        na.append({"property_id": pid, "reason": "not claimed yet: its check is still under construction in this session"})
hook = subprocess.run("git -C /repo log --format=%h --grep='^verif hooks' ", shell=True, capture_output=True, text=True).stdout.split()
engines = {}
for c in checks: engines.setdefault(c["engine"], []).append(c["property_id"])
m = {"version": 1, "setup_cmd": "./check build",
 "hooks": {"guard": "sighook_verif", "enable": "RUSTFLAGS='--cfg sighook_verif' via /verif/sim/.cargo/config.toml (which also sets RUSTC_BOOTSTRAP=1 for the simulator's Arc wrapper: unstable CoerceUnsized/DispatchFromDyn, simulator build only); shadow manifests under /verif/sim/shadow build /repo's sources by absolute path together with the sighook-shim crate", "baseline_off_cmd": "cd /repo && cargo test --workspace --no-fail-fast --offline", "source_commits": hook, "add_only": True},
 "engines": [{"name": k, "path": f"/verif/sim/vsim/src/{k}.rs", "serves_properties": v, "kind_free_text": "scenario engine on the sighook-shim simulator (fork per run, simulated threads, fault injection)"} for k, v in engines.items()],
 "checks": checks, "not_applicable": na,
 "notes": "All checks: cwd=/verif, VERIF_SEED (default 1) seeds every choice; exit 0/1/2 = held / VIOLATION / harness error. Replays are written under /verif/replays. Sensitivity self-test: selftest/mutants.py. Determinism self-test: ./check determinism <ID> [n]."}
json.dump(m, open("/verif/MANIFEST.json", "w"), indent=1)
print("claimed:", [c["property_id"] for c in checks])
