#!/bin/sh
# Apply each behaviour-preserving change under benign/ and run the relevant quick checks: all must stay silent.
for d in /verif/benign/${BENIGN_GLOB:-b*}; do
  k=$(basename $d | cut -c2)
  case $k in 1) props="C01 C02 C03 C04 C05 C18";; 2) props="C06 C07 C08 C13 C15 C03 C10";; 4) props="C01 C02 C03 C04 C05 C18 C06 C07 C08 C10";; 5) props="C09 C10 C11 C12 C13 C14 C03 C01";; *) props="C09 C10 C11 C12 C14 C03";; esac
  git -C /repo apply $d/patch.diff 2>/dev/null || git -C /repo apply -3 $d/patch.diff 2>/dev/null || { echo "$d: patch does not apply"; git -C /repo checkout -- .; continue; }
  git -C /repo reset -q
  for p in $props; do
    out=$(cd /verif && VERIF_RUNS=${VERIF_RUNS:-50000} ./check $p quick 2>&1)
    echo "$out" | grep -qE "VIOLATION|HARNESS" && { echo "$(basename $d) $p: ALARM"; echo "$out" | grep -E "violated|VIOLATION|HARNESS" | cut -c1-300; } || echo "$(basename $d) $p: silent"
  done
  git -C /repo checkout -- .
done
