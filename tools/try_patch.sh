#!/bin/sh
# usage: try_patch.sh <patch.diff> <PROP> [more PROPs...]   (env VERIF_RUNS optional)
# applies the patch to /repo, runs the quick check(s), reverts /repo.
P="$1"; shift
git -C /repo apply "$P" || { echo "patch does not apply"; exit 2; }
for prop in "$@"; do
    out=$(cd /verif && ./check "$prop" quick 2>&1)
    echo "$out" | grep -E "^violated|^VIOLATION|^KNOWN|HARNESS|^$prop quick" | cut -c1-400
done
git -C /repo checkout -- .
