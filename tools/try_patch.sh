#!/bin/sh
# usage: try_patch.sh <patch.diff> <PROP> [more PROPs...]   (env VERIF_RUNS optional)
# applies the patch to /repo, runs the quick check(s), reverts /repo.
P="$1"; shift
git -C /repo apply "$P" 2>/dev/null || git -C /repo apply -3 "$P" 2>/dev/null || (cd /repo && patch -p1 -s --fuzz=3 < "$P") || { echo "patch does not apply"; git -C /repo checkout -- .; exit 2; }
git -C /repo reset -q
for prop in "$@"; do
    out=$(cd /verif && ./check "$prop" quick 2>&1)
    echo "$out" | grep -E "^violated|^VIOLATION|^KNOWN|HARNESS|^$prop quick" | cut -c1-400
done
git -C /repo checkout -- .
