#!/usr/bin/env python3
"""Re-validate every seeded change: apply, run the quick check(s) recorded in its meta.json with a
reduced budget, expect a VIOLATION line for the property it breaks, revert.  usage: recheck_seeded.py [substr...]"""
import json, os, subprocess, sys, glob, time
sel = sys.argv[1:]
def sh(cmd, env=None):
    e = dict(os.environ); e.update(env or {})
    r = subprocess.run(cmd, shell=True, cwd="/verif", capture_output=True, text=True, env=e)
    return r.returncode, r.stdout + r.stderr
assert sh("git -C /repo status --porcelain --untracked-files=no")[1].strip() == "", "/repo not clean"
missed = []
n = 0
for d in sorted(glob.glob("/verif/seeded/*")):
    sid = os.path.basename(d)
    if sel and not any(s in sid for s in sel):
        continue
    meta = json.load(open(os.path.join(d, "meta.json")))
    props = list(meta["caught_by"].keys())
    rc, o = sh(f"git -C /repo apply {d}/patch.diff")
    if rc != 0:
        print(f"{sid}: patch does not apply: {o[:200]}"); missed.append(sid); continue
    res = {}
    for p in props[:1]:
        runs = "30000" if p == "C13" else ("200000" if sid.startswith("C18-b") else "100000")
        t = time.time()
        rc, out = sh(f"./check {p} quick", env={"VERIF_RUNS": runs})
        res[p] = f"VIOLATION property={p}" in out
        first = [l for l in out.splitlines() if l.startswith("violated:")][:1]
        print(f"{'CAUGHT' if res[p] else 'MISSED'} {sid} [{p}] ({time.time()-t:.0f}s) {(first[0][:150] if first else out.strip().splitlines()[-1][:150])}")
    sh("git -C /repo checkout -- .")
    n += 1
    if not all(res.values()):
        missed.append(sid)
print(f"{n - len(missed)}/{n} caught; missed: {missed}")
sys.exit(1 if missed else 0)
