#!/usr/bin/env python3
"""Independently confirm a sub-agent's change in its scratch worktree:
 (1) patch applies on HEAD, (2) existing suite passes with it, (3) demo fails with it, (4) demo passes without.
usage: confirm_seeded.py <worktree> <variant> [demo_dest] [extra cargo test args]
Prints one JSON line."""
import subprocess, sys, os, json, re, shutil, time
wt, var = sys.argv[1], sys.argv[2]
out = os.path.join(wt, "out", var)
meta = json.load(open(os.path.join(out, "meta.json")))
def sh(cmd, timeout=1800):
    try:
        r = subprocess.run(cmd, shell=True, cwd=wt, capture_output=True, text=True, timeout=timeout,
                           env=dict(os.environ, CARGO_NET_OFFLINE="true"))
        return r.returncode, r.stdout + r.stderr
    except subprocess.TimeoutExpired:
        return 124, "TIMEOUT"
res = {"worktree": wt, "variant": var}
sh("git checkout -- . && git clean -fdq -e out -e target")
rc, o = sh(f"git apply --check out/{var}/patch.diff")
res["patch_applies"] = rc == 0
# find demo destination and test command
cmds = " ; ".join(meta.get("commands_run", []))
dest = sys.argv[3] if len(sys.argv) > 3 else None
if not dest:
    m = re.search(r"cp out/%s/demo\.rs (\S+)" % var, cmds)
    dest = m.group(1).rstrip(".,;)") if m else f"tests/seeded_demo_{var}.rs"
name = os.path.basename(dest)[:-3]
pkg = "-p signal-hook-registry" if dest.startswith("signal-hook-registry") else (f"--manifest-path {dest.split('/')[0]}/Cargo.toml" if dest.startswith("signal-hook-") else "")
extra = sys.argv[4] if len(sys.argv) > 4 else ("-- --test-threads=1" if "--test-threads=1" in cmds else "")
demo_cmd = f"cargo test {pkg} --test {name} --offline {extra}"
res["demo_cmd"] = demo_cmd
demo_src = os.path.join(out, "demo.rs")
if not os.path.exists(demo_src):
    res["demo"] = "no demo.rs (see meta.json)"; print(json.dumps(res)); sys.exit(0)
# with change
sh(f"git apply out/{var}/patch.diff")
t=time.time(); rc, o = sh("cargo test --workspace --no-fail-fast --offline"); res["suite_with_change_passes"] = rc == 0; res["suite_s"]=round(time.time()-t)
shutil.copy(demo_src, os.path.join(wt, dest))
fails = 0
for i in range(2):
    rc, o = sh(demo_cmd, timeout=600)
    if rc != 0: fails += 1
res["demo_fails_with_change"] = f"{fails}/2"
os.remove(os.path.join(wt, dest))
sh("git checkout -- .")
shutil.copy(demo_src, os.path.join(wt, dest))
rc, o = sh(demo_cmd, timeout=900)
res["demo_passes_without_change"] = rc == 0
if rc != 0: res["demo_without_tail"] = o[-600:]
os.remove(os.path.join(wt, dest))
sh("git checkout -- .")
print(json.dumps(res))
