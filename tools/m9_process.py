#!/usr/bin/env python3
"""usage: m9_process.py <worktree> <variant> <PROP> [PROP...]  - confirm in the worktree, then run the quick checks against the patch applied to /repo."""
import json, subprocess, sys, os
wt, var, props = sys.argv[1], sys.argv[2], sys.argv[3:]
meta = json.load(open(f"{wt}/out/{var}/meta.json"))
dest = meta.get("demo_dest")
extra = ""
dc = meta.get("demo_cmd", "")
if "--features" in dc:
    extra = dc[dc.index("--features"):].split("--test")[0].strip()
    if "--test-threads=1" in dc: extra += " -- --test-threads=1"
elif "--test-threads=1" in dc:
    extra = "-- --test-threads=1"
args = ["python3", "/verif/tools/confirm_seeded.py", wt, var, dest] + ([extra] if extra else [])
r = subprocess.run(args, capture_output=True, text=True)
print("CONFIRM", r.stdout.strip()[-700:], r.stderr.strip()[-300:])
env = dict(os.environ, VERIF_RUNS=os.environ.get("VERIF_RUNS", "100000"))
r = subprocess.run(["/verif/tools/try_patch.sh", f"{wt}/out/{var}/patch.diff"] + props, capture_output=True, text=True, env=env)
print(r.stdout[-2500:], r.stderr[-300:])
